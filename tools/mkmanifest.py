#!/usr/bin/env python3
"""Regenerate MANIFEST.json.  IMPLEMENTED lists the checks that exist; every other property is
listed under not_applicable with its reason."""
import json
import os

ROOT = os.path.dirname(os.path.dirname(os.path.abspath(__file__)))
IMPLEMENTED = [c[:-3].upper() for c in sorted(os.listdir(os.path.join(ROOT, "checks")))
               if c.startswith("c") and c.endswith(".py") and c[1:-3].isdigit()]

NA = {
    "C01": "pure arithmetic function of (resolution, tempo map, tick): no schedule, clock, I/O, fault or process state is on the path; deciding it needs an exact-arithmetic oracle over generated inputs, which is input generation, not simulation",
    "C02": "pure function of one instrument section's line list (grouping by tick); nothing a scheduler, disk or fault injector controls can change it",
    "C03": "pure function of one tick group / one track; the lazy cached attributes behind it are exercised under C19 and the memo table under C17",
    "C04": "finite pure decision table per resolution; its process-wide memo (note_duration_to_ticks) is a history hazard covered by C17, the table itself is not a simulation target",
    "C05": "pure function of (phrase list, note ticks); the phrase cursor is a local of one call, no shared or persistent state",
    "C07": "language acceptance of three regular expressions over all strings: a property of inputs, not of any execution, schedule or fault",
    "C08": "pure string-to-number decoding; the defect the property cites (B 1118 rejected) is real but is neither found nor fixable through a schedule/fault/history argument",
    "C09": "total classification function on strings (lyric/section/text): no execution-dependent behaviour",
    "C10": "pure function of the [Song] lines; no interleaving, I/O or history dependence to simulate",
    "C12": "order relation of the same pure tick-to-time function as C01",
    "C16": "pure function of (chart, instrument, difficulty, bounds); its only stateful aspect (absent-track look-up inserts a key) is judged under C19",
}

TRUST = ("Trusted base: the harness (plan generator, scheduler, simulated raw device, oracles), CPython 3.12 and its io/logging/import machinery; chartparse itself always runs as real code imported from the working tree. ")

C = {
    "C06": ("exploration",
            "Seeded simulated runs: every generated chart is stored on a simulated disk in many variants (section permutation x LF/CRLF x BOM x unknown sections x header subsets covering all 40 names) and read back by path and through several reader kinds while the raw device short-reads, splits CRLF/BOM/multi-byte sequences across reads, raises EINTR or EIO. Oracle: a routing model (header -> key/label/content) plus equality with the canonical variant, one warning per unknown section, ValueError for a missing required section. Sampling over inputs and I/O schedules; not a proof.",
            TRUST + "The header table (40 names -> enum member names) is the harness' own copy of the file format.",
            "deterministic simulation: simulated disk + I/O fault tapes under the real io stack, routing/invariance oracle", "DESIGN.md §4 C06"),
    "C11": ("exploration",
            "Seeded simulated runs in three parts: (a) client sessions on a shared tempo map that feed returned indices back as hints, judged by a governing-index model; (b) record reorder/dup/drop/move faults on every section of a stored chart with the oracle 'ValueError, or every stored timestamp equals the un-hinted query'; (c) a call-site monitor on every real timestamp_at_tick call during parsing that re-evaluates with lowered hints. Sampling, not enumeration.",
            TRUST + "The governing-index model (max i with tick_i <= t) is recomputed from the parsed tempo ticks.",
            "deterministic simulation: hint-feedback sessions under the scheduler, record-order storage faults, call-site monitor", "DESIGN.md §4 C11"),
    "C13": ("exploration",
            "Seeded simulated runs: a stored chart with 2-6 instrument sections is damaged inside the byte range of ONE section (garbage, foreign lines, another section's body, content that makes the section invalid) and parsed by 1-3 clients (concurrent in a quarter of the runs) with selections None/empty/singletons/subsets/supersets/absent pairs. Oracle: keys = headers in file ∩ selection, every undamaged track and all shared data identical to the undamaged unrestricted parse, damaged-and-unselected must not be visible at all. Sampling.",
            TRUST + "Damage never contains a bare brace or header line (that would legitimately re-frame the file).",
            "deterministic simulation: region-confined storage faults + concurrent selecting clients, fault-containment oracle", "DESIGN.md §4 C13"),
    "C14": ("exploration",
            "Seeded simulated runs with line-granular storage faults (junk / foreign-line insertion with multiplicity, garbling, moving and deleting unparsable lines) in sync, events and instrument sections. Oracles: locality (events equal those of the undamaged file), conservation at the dispatcher seam (lines in = data out + 'unparsable line' warnings, each junk line reported exactly once), and a schedule seam that re-runs the dispatcher with the kinds in a permuted order and tries every kind on every line seen (<= 1 claimant). The all-strings clause is only monitored on lines that occur in runs; sampling.",
            TRUST + "Strict junk shapes are only those the property texts call unparsable; every other candidate is judged relative to the code's own verdict (warned => must be local).",
            "deterministic simulation: line-granular storage faults, conservation/locality oracles, kind-order permutation at the dispatcher seam", "DESIGN.md §4 C14"),
    "C15": ("fault_enumeration",
            "For each seeded chart, EVERY single corruption of the sync data at EVERY position is applied, plus ordered PAIRS of such corruptions (all of them up to a per-chart cap, a seeded sample above it) (resolution 0; drop/shift the tick-0 tempo or signature; duplicate tempo k's tick; swap every pair of tempo lines; tempo k -> 0 for each k) and judged by the exact rule of the property (must raise ValueError / must not raise / queries governed by a zero tempo and negative ticks must raise). Exhaustive over (kind x position) per chart; charts are seeded samples.",
            TRUST + "The sync trust rule (five rejection conditions + zero-tempo governing rule) is the harness' executable reading of the property.",
            "deterministic simulation: exhaustive single-fault enumeration (plus fault pairs) over seeded charts, trust-rule predicate as exact must-raise oracle", "DESIGN.md §4 C15"),
    "C17": ("exploration",
            "Flagship. Seeded simulated runs: corpus of 3-8 texts, 1-4 caller threads with histories of parses (incl. failing ones), a deterministic line-level scheduler (geometric / PCT / sequential), and separate fault sub-batches: result-preserving I/O behaviour, EIO, abort at an arbitrary line of an arbitrary parse (cancellation / MemoryError), memo tables cleared at random boundaries. Every completed parse must equal (observation digest, exception, warnings, ==) a single parse of the same text in a process forked from the pristine image; a sample is cross-checked in a fresh interpreter under a random PYTHONHASHSEED. Sampling over histories and schedules; not a proof.",
            TRUST + "Pre-emption granularity is the source line inside chartparse frames; C calls are atomic.",
            "deterministic simulation: baton-passing threads pre-empted at line events, abort/EIO/I-O fault injection, fresh-process reference", "DESIGN.md §4 C17"),
    "C18": ("exploration",
            "Seeded search over fault sequences on stored chart text (line drop/dup/swap/move/insert, char edits, truncation) and texts assembled from a fragment catalogue, with a closed exception-type oracle and render totality on every returned chart. Sampling, not enumeration: a clean batch is evidence that no undocumented error type escapes, not a proof over all strings.",
            TRUST + "Inputs outside the property's numeric bounds (digit runs > 8, TS exponent >= 64) are discarded and counted.",
            "deterministic simulation: seeded storage-fault sequences, exception-type oracle", "DESIGN.md §4 C18"),
    "C19": ("exploration",
            "Seeded simulated runs: one shared parsed chart (+ an untouched twin), 1-4 reader threads with histories of read-only operations (subscripting by all instruments, rate queries in every argument form incl. failing ones, tick-to-time queries with legal/illegal hints, rendering, comparison, hashing, derived attributes, assignment attempts) under the line-level scheduler. After every operation: observation unchanged, twin equality both ways, result equals the same operation on a fresh parse, assignment rejected. A third of the concurrent runs are 'cold': the harness does not observe the shared chart before or between operations (so lazily computed attributes are first touched by the racing readers) and judges observation and twin equality once at the end against the untouched twin. Sampling over histories and schedules.",
            TRUST + "The sequential model is a fresh parse of the same text by the real parser.",
            "deterministic simulation: concurrent reader histories under a seeded scheduler, immutable-value model", "DESIGN.md §4 C19"),
    "C20": ("exploration",
            "One fresh interpreter per import history: all first-imports and all ordered pairs of the package's modules exhaustively (ordered triples in the thorough tier), seeded longer permutations, 'import a.b', 'from a.b import *', 'from a import b' and importlib forms, random PYTHONHASHSEED. Oracle: every history succeeds, every import statement hands out the module it names, the history leaves the same public names bound to the same objects as the canonical order, and a smoke parse gives the canonical observation. Exhaustive for histories of length <= 2 (<= 3 thorough); longer ones sampled.",
            TRUST + "The module list is discovered from chartparse/*.py at run time; concurrent first-imports from two threads are not part of the property.",
            "deterministic simulation: one interpreter per import history (exhaustive short histories, seeded long ones), identity-snapshot oracle", "DESIGN.md §4 C20"),
}


def main() -> None:
    checks = []
    for pid in sorted(C):
        if pid not in IMPLEMENTED:
            continue
        cat, text, note, tech, ref = C[pid]
        checks.append({
            "property_id": pid,
            "quick_cmd": f"/venv/bin/python bin/check {pid} --tier quick",
            "thorough_cmd": f"/venv/bin/python bin/check {pid} --tier thorough",
            "evidence_file": f"/verif/evidence/{pid}.json",
            "replay_cmd_template": f"/venv/bin/python bin/check {pid} --replay {{path}}",
            "engine": "detsim",
            "level_claimed": {"category": cat, "text": text, "design_ref": ref},
            "level_note": note,
            "technique": tech,
        })
    na = [{"property_id": k, "reason": v} for k, v in sorted(NA.items())]
    for pid in sorted(C):
        if pid not in IMPLEMENTED:
            na.append({"property_id": pid, "reason": "deterministic simulation applies (DESIGN.md §4) but the check is not built yet in this tree; not claimed until it is"})
    m = {
        "version": 1,
        "setup_cmd": "/venv/bin/python -c \"import sys; sys.path.insert(0, '/verif'); import detsim.runner, detsim.sched, detsim.simfs\"",
        "hooks": {
            "guard": "CHARTPARSE_VERIF",
            "enable": "no source hooks exist: every seam the simulator needs is already in the code (module-global open, the fp argument, module/class attributes resolved at call time, logging handlers, sys.settrace); the guard names nothing in /repo and checks run the working tree as it is",
            "baseline_off_cmd": "cd /repo && /venv/bin/python -m pytest -ra -q -p no:cacheprovider --timeout=900 --continue-on-collection-errors",
            "source_commits": [],
            "add_only": True,
        },
        "engines": [{
            "name": "detsim", "path": "/verif/detsim",
            "serves_properties": [c["property_id"] for c in checks],
            "kind_free_text": "deterministic simulator written for this task: one integer -> explicit JSON plan -> isolated run (forked from a pristine image) -> verdict; baton-passing real threads pre-empted at sys.settrace line events; simulated raw disk under the real io stack; storage-corruption operators; abort/EIO/EINTR fault injection; plan-level minimisation; replay confirmed in a fresh process",
        }],
        "checks": checks,
        "notes": "See DESIGN.md. Properties that are pure functions of their input are listed under not_applicable (the technique studied here does not decide them and no other technique was substituted). KNOWN_FINDINGS.txt records the genuine defects found and repaired (fix: commits in /repo).",
        "not_applicable": na,
    }
    with open(os.path.join(ROOT, "MANIFEST.json"), "w") as f:
        json.dump(m, f, indent=1)
        f.write("\n")
    print("claimed:", [c["property_id"] for c in checks])


if __name__ == "__main__":
    main()
