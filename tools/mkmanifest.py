#!/usr/bin/env python3
"""Regenerate MANIFEST.json.  IMPLEMENTED lists the checks that exist; every other property is
listed under not_applicable with its reason."""
import json
import os

ROOT = os.path.dirname(os.path.dirname(os.path.abspath(__file__)))
IMPLEMENTED = [c[:-3].upper() for c in sorted(os.listdir(os.path.join(ROOT, "checks")))
               if c.startswith("c") and c.endswith(".py") and c[1:-3].isdigit()]

NA = {
    "C01": "pure arithmetic function of (resolution, tempo map, tick): no schedule, clock, I/O, fault or process state is on the path; deciding it needs an exact-arithmetic oracle over generated inputs, which is input generation, not simulation",
    "C02": "pure function of one instrument section's line list (grouping by tick); nothing a scheduler, disk or fault injector controls can change it",
    "C03": "pure function of one tick group / one track; the lazy cached attributes behind it are exercised under C19 and the memo table under C17",
    "C04": "finite pure decision table per resolution; its process-wide memo (note_duration_to_ticks) is a history hazard covered by C17, the table itself is not a simulation target",
    "C05": "pure function of (phrase list, note ticks); the phrase cursor is a local of one call, no shared or persistent state",
    "C07": "language acceptance of three regular expressions over all strings: a property of inputs, not of any execution, schedule or fault",
    "C08": "pure string-to-number decoding; the defect the property cites (B 1118 rejected) is real but is neither found nor fixable through a schedule/fault/history argument",
    "C09": "total classification function on strings (lyric/section/text): no execution-dependent behaviour",
    "C10": "pure function of the [Song] lines; no interleaving, I/O or history dependence to simulate",
    "C12": "order relation of the same pure tick-to-time function as C01",
    "C16": "pure function of (chart, instrument, difficulty, bounds); its only stateful aspect (absent-track look-up inserts a key) is judged under C19",
}

TRUST = ("Trusted base: the harness (plan generator, scheduler, simulated raw device, oracles), CPython 3.12 and its io/logging/import machinery; chartparse itself always runs as real code imported from the working tree. ")

C = {
    "C06": ("exploration",
            "Seeded simulated runs: every generated chart is stored on a simulated disk in many variants (section permutation x LF/CRLF x BOM x unknown sections incl. case variants of the 40 names x header subsets covering all 40 names x file names with braces / per-cent signs / non-ASCII x special files whose stat size is 0) and read back by path and through several reader kinds while the raw device short-reads, splits CRLF/BOM/multi-byte sequences across reads, raises EINTR or EIO; a quarter of the runs read their variants from two concurrent clients in a cold process; faults are injected inside the parse of one section; another chart with other difficulties is parsed first. Oracle: a routing model (header -> key/label/content) plus equality with the canonical variant computed in a forked pristine process, one counted report per unknown section, ValueError for a missing required section; a faulted read may fail, never return wrong data. Sampling over inputs, I/O schedules and interleavings; not a proof. A tenth of every batch each runs under python -O, python -OO and the C locale without UTF-8 mode; 1 run in 7 has debug logging enabled and 1 in 11 treats warnings as errors (references are always computed in the default process state). Threads, locks, conditions, queues and thread pools that the library makes ITSELF are owned by the simulator too (detsim.simthreads): such threads are adopted as clients of the same seeded scheduler, blocking goes through cooperative locks, timed waits use simulated time, a run in which no thread can proceed is reported as a deadlock; a quarter of the scheduled runs also pre-empt inside lock-free stdlib call-backs of C-level container operations (Enum.__hash__, descriptor __get__, Sequence mix-ins), where a 'callback window' policy lets another thread in for a long stretch. One run in 13 is made with a low-precision per-thread decimal context set by the application. In the interpreter-configuration slices a canonical variant that is rejected is re-parsed in a default-mode interpreter of the same tree: parses there => framing depends on how the interpreter was started => violation.",
            TRUST + "The header table (40 names -> enum member names) is the harness' own copy of the file format.",
            "deterministic simulation: simulated disk + I/O fault tapes under the real io stack, routing/invariance oracle", "DESIGN.md §4 C06"),
    "C11": ("exploration",
            "Seeded simulated runs in three parts: (a) client sessions on a shared tempo map (optionally with a second chart of another resolution queried at the same time, after another chart of the same shape was loaded, queried and dropped under in-run allocator shifts, and on maps of 1100-2600 tempo events) that feed returned indices back as hints, judged by a governing-index model; (b) record reorder/dup/drop/move faults on every section of a stored chart with the oracle 'ValueError, or every stored timestamp equals the un-hinted query'; (c) a call-site monitor on every real timestamp_at_tick call during parsing that re-evaluates with lowered hints. Sampling, not enumeration. A tenth of every batch each runs under python -O, python -OO and the C locale without UTF-8 mode; 1 run in 7 has debug logging enabled and 1 in 11 treats warnings as errors (references are always computed in the default process state). Sessions also require that the timestamp stored on a tempo event equals the un-hinted query for its tick at any later time and on any thread (one run in 13 lowers the application's decimal precision after the chart was loaded); the stored==un-hinted oracle is applied to pickle / deepcopy / shallow copies of parsed charts as well; a third of the tempo values are drawn from the whole thousandth-BPM range.",
            TRUST + "The governing-index model (max i with tick_i <= t) is recomputed from the parsed tempo ticks.",
            "deterministic simulation: hint-feedback sessions under the scheduler, record-order storage faults, call-site monitor", "DESIGN.md §4 C11"),
    "C13": ("exploration",
            "Seeded simulated runs: a stored chart with 2-6 instrument sections is damaged inside the byte range of ONE section (garbage, foreign lines, another section's body, content that makes the section invalid, descending ticks shared with other sections) and parsed by 1-3 clients (concurrent in a quarter of the runs, cold start) with selections None/empty/singletons/subsets/supersets/absent pairs, from memory, by path (one path per file) and through a short-reading reader; 12 % of the selection objects raise on their k-th access. Oracle: keys = headers in file ∩ selection, every undamaged track and all shared data identical to the undamaged unrestricted parse made in a forked pristine process, the damaged section's own outcome equals its outcome as the only instrument section, naming absent pairs changes nothing, the caller's selection object is not modified. Sampling. A tenth of every batch each runs under python -O, python -OO and the C locale without UTF-8 mode; 1 run in 7 has debug logging enabled and 1 in 11 treats warnings as errors (references are always computed in the default process state).",
            TRUST + "Damage never contains a bare brace or header line (that would legitimately re-frame the file).",
            "deterministic simulation: region-confined storage faults + concurrent selecting clients, fault-containment oracle", "DESIGN.md §4 C13"),
    "C14": ("exploration",
            "Seeded simulated runs with line-granular storage faults (junk / foreign-line insertion with multiplicity up to floods of 300, garbling, moving and deleting unparsable lines) in sync, events and instrument sections, read from memory or through a short-reading reader, a quarter from two concurrent clients; allocation failures inside recognisers; the first parse of some runs happens with logging switched off. Oracles: locality (events equal those of the undamaged file), conservation at the dispatcher seam (lines in = data out + reports; one COUNTED report per injected unparsable line, never matched by text), a schedule seam that re-runs the dispatcher with the kinds in a permuted order and tries every kind on every line seen (<= 1 claimant), nothing reported against another file after an aborted parse. The all-strings clause is only monitored on lines that occur in runs; sampling. A tenth of every batch each runs under python -O, python -OO and the C locale without UTF-8 mode; 1 run in 7 has debug logging enabled and 1 in 11 treats warnings as errors (references are always computed in the default process state).",
            TRUST + "Strict junk shapes are only those the property texts call unparsable; every other candidate is judged relative to the code's own verdict (warned => must be local).",
            "deterministic simulation: line-granular storage faults, conservation/locality oracles, kind-order permutation at the dispatcher seam", "DESIGN.md §4 C14"),
    "C15": ("fault_enumeration",
            "For each seeded chart, EVERY single corruption of the sync data at EVERY position is applied, plus ordered PAIRS of such corruptions (all of them up to a per-chart cap, a seeded sample above it) (resolution 0; drop/shift the tick-0 tempo or signature; duplicate tempo k's tick; swap every pair of tempo lines; tempo k -> 0 for each k), and the verdict of every resulting file is computed from the stored bytes by the trust-rule predicate (must raise ValueError / unspecified / may parse / nothing demanded). Around that: a third of the rejected files are retried at once, a quarter are preceded by an acceptable chart that carries the corrupt lines as stray lines, zero-tempo charts are loaded after a healthy chart was queried and dropped (swept over allocator shifts) and queried by two scheduled reader threads, a quarter of the charts are read through a short-reading reader, 4 % have 18-40 tempo events. Exhaustive over (kind x position) per chart for single faults; charts are seeded samples. A tenth of every batch each runs under python -O, python -OO and the C locale without UTF-8 mode; 1 run in 7 has debug logging enabled and 1 in 11 treats warnings as errors (references are always computed in the default process state). One chart in 12 carries 17-76 unparsable lines inside every corrupted sync section (a dispatcher that gives up on a noisy section never sees the corruption behind the noise).",
            TRUST + "The sync trust rule (five rejection conditions + zero-tempo governing rule) is the harness' executable reading of the property.",
            "deterministic simulation: exhaustive single-fault enumeration (plus fault pairs) over seeded charts, trust-rule predicate as exact must-raise oracle", "DESIGN.md §4 C15"),
    "C17": ("exploration",
            "Flagship. Seeded simulated runs: corpus of 3-8 texts (incl. failing ones, texts with stray and foreign lines, duplicated [Song] fields, eight-digit ticks, occasionally a few-thousand-line chart), 1-4 caller threads with histories of parses, a deterministic line-level (20 %: bytecode-level) scheduler (geometric / PCT / sequential / write- and shared-state-biased), and separate fault sub-batches: result-preserving I/O behaviour, EIO, abort at an arbitrary / targeted / cold line (cancellation, MemoryError, OSError), memo tables + regex cache cleared and a GC pass at random boundaries, long histories under allocator shifts, churn (results dropped while other threads parse), caller-object faults (log handler raises or re-enters the parser, selection sequence raises, reader raises); stored files are replaced in place by same-length texts with the same modification time; callers reuse their selection objects; parses with logging switched off. Every completed parse must equal (observation digest incl. classes and key order, exception, ==, event hashes) a single parse of the same text in a process forked from the pristine image; a faulted parse may fail, never return another chart; samples are cross-checked through a plain in-memory read and in fresh interpreters under random PYTHONHASHSEED and several process environments (locale, UTF-8 mode, dev mode, -O/-OO). Sampling over histories and schedules; not a proof. A tenth of every batch each runs under python -O, python -OO and the C locale without UTF-8 mode; 1 run in 7 has debug logging enabled and 1 in 11 treats warnings as errors (references are always computed in the default process state). Threads, locks, conditions, queues and thread pools that the library makes ITSELF are owned by the simulator too (detsim.simthreads): such threads are adopted as clients of the same seeded scheduler, blocking goes through cooperative locks, timed waits use simulated time, a run in which no thread can proceed is reported as a deadlock; a quarter of the scheduled runs also pre-empt inside lock-free stdlib call-backs of C-level container operations (Enum.__hash__, descriptor __get__, Sequence mix-ins), where a 'callback window' policy lets another thread in for a long stretch. One run in 13 is made with a low-precision per-thread decimal context set by the application.",
            TRUST + "Pre-emption granularity is the source line inside chartparse frames; C calls are atomic.",
            "deterministic simulation: baton-passing threads pre-empted at line events, abort/EIO/I-O fault injection, fresh-process reference", "DESIGN.md §4 C17"),
    "C18": ("exploration",
            "Seeded search over fault sequences on stored chart text (line drop/dup/swap/move/insert, floods of 90-513 copies of one line, char edits, truncation, byte-level damage read through a decoding reader) and texts assembled from a fragment catalogue, incl. eight-digit ticks and tracks of 500-1100 notes, with a closed exception-type oracle and render totality on every returned chart; every eighth run is a 420-text history in one process, every eighth races renderers of a cold chart against other readers, every eighth parses (and drops) charts from several threads at once; 6 % of the texts are parsed with a log handler that re-enters the parser. Sampling, not enumeration: a clean batch is evidence that no undocumented error type escapes, not a proof over all strings. A tenth of every batch each runs under python -O, python -OO and the C locale without UTF-8 mode; 1 run in 7 has debug logging enabled and 1 in 11 treats warnings as errors (references are always computed in the default process state).",
            TRUST + "Inputs outside the property's numeric bounds (digit runs > 8, TS exponent >= 64) are discarded and counted.",
            "deterministic simulation: seeded storage-fault sequences, exception-type oracle", "DESIGN.md §4 C18"),
    "C19": ("exploration",
            "Seeded simulated runs: one shared parsed chart (+ an untouched twin), 1-4 reader threads with histories of read-only operations (subscripting by all instruments, rate queries in every argument form incl. failing ones, tick-to-time queries with legal/illegal hints, rendering, comparison, hashing, derived attributes, assignment attempts) under the line-level scheduler. After every operation: observation unchanged, twin equality both ways, result equals the same operation on a fresh parse, assignment rejected. A third of the concurrent runs are 'cold': the harness does not observe the shared chart before or between operations (so lazily computed attributes are first touched by the racing readers) and judges observation and twin equality once at the end against the untouched twin. 40 % of the runs keep a second chart with a different track set in the process and direct 30 % of the operations at it; 30 % parse the shared chart with a selection; 20 % inject aborts inside read-only operations; operations include copy / deepcopy / pickle / dataclasses.replace; every result is also compared with the same operation on a fresh parse in a process forked from the pristine image; event hashes of chart and twin must agree. Sampling over histories and schedules. A tenth of every batch each runs under python -O, python -OO and the C locale without UTF-8 mode; 1 run in 7 has debug logging enabled and 1 in 11 treats warnings as errors (references are always computed in the default process state). Threads, locks, conditions, queues and thread pools that the library makes ITSELF are owned by the simulator too (detsim.simthreads): such threads are adopted as clients of the same seeded scheduler, blocking goes through cooperative locks, timed waits use simulated time, a run in which no thread can proceed is reported as a deadlock; a quarter of the scheduled runs also pre-empt inside lock-free stdlib call-backs of C-level container operations (Enum.__hash__, descriptor __get__, Sequence mix-ins), where a 'callback window' policy lets another thread in for a long stretch. One run in 13 is made with a low-precision per-thread decimal context set by the application. Stampede runs: every reader starts with the same cold read (far tick look-ups, rate query, derived attribute, rendering). Sampled runs end with a pickle consumer in ANOTHER interpreter (another hash seed): what it observes for the used chart (after hashing all its events) must equal what it observes for the untouched twin.",
            TRUST + "The sequential model is a fresh parse of the same text by the real parser.",
            "deterministic simulation: concurrent reader histories under a seeded scheduler, immutable-value model", "DESIGN.md §4 C19"),
    "C20": ("exploration",
            "One fresh interpreter per import history: all first-imports and all ordered pairs of the package's modules exhaustively (ordered triples in the thorough tier), seeded longer permutations, 'import a.b', 'from a.b import *', 'from a import b' and importlib forms, random PYTHONHASHSEED. Oracle: every history succeeds, every import statement hands out the module it names, the history leaves the same public names bound to the same objects as the canonical order, and a smoke parse gives the canonical observation. Fault-injected histories interrupt the first import at a seeded line of the package's module / class bodies and retry it (judged when the interpreter kept the package object). A fifth of the histories run with warnings as errors and nothing compiled yet; environment variables the package source reads are set to odd values in a third; a tenth each run under python -O, -OO and the C locale. Exhaustive for histories of length <= 2 (<= 3 thorough); longer ones sampled. One history in 8 imports the package from a zip archive (zipimport: __file__ names no real file).",
            TRUST + "The module list is discovered from chartparse/*.py at run time; concurrent first-imports from two threads are not part of the property.",
            "deterministic simulation: one interpreter per import history (exhaustive short histories, seeded long ones), identity-snapshot oracle", "DESIGN.md §4 C20"),
}


def main() -> None:
    checks = []
    for pid in sorted(C):
        if pid not in IMPLEMENTED:
            continue
        cat, text, note, tech, ref = C[pid]
        checks.append({
            "property_id": pid,
            "quick_cmd": f"/venv/bin/python bin/check {pid} --tier quick",
            "thorough_cmd": f"/venv/bin/python bin/check {pid} --tier thorough",
            "evidence_file": f"/verif/evidence/{pid}.json",
            "replay_cmd_template": f"/venv/bin/python bin/check {pid} --replay {{path}}",
            "engine": "detsim",
            "level_claimed": {"category": cat, "text": text, "design_ref": ref},
            "level_note": note,
            "technique": tech,
        })
    na = [{"property_id": k, "reason": v} for k, v in sorted(NA.items())]
    for pid in sorted(C):
        if pid not in IMPLEMENTED:
            na.append({"property_id": pid, "reason": "deterministic simulation applies (DESIGN.md §4) but the check is not built yet in this tree; not claimed until it is"})
    m = {
        "version": 1,
        "setup_cmd": "/venv/bin/python -c \"import sys; sys.path.insert(0, '/verif'); import detsim.runner, detsim.sched, detsim.simfs\"",
        "hooks": {
            "guard": "CHARTPARSE_VERIF",
            "enable": "no source hooks exist: every seam the simulator needs is already in the code (module-global open, the fp argument, module/class attributes resolved at call time, logging handlers, sys.settrace); the guard names nothing in /repo and checks run the working tree as it is",
            "baseline_off_cmd": "cd /repo && /venv/bin/python -m pytest -ra -q -p no:cacheprovider --timeout=900 --continue-on-collection-errors",
            "source_commits": [],
            "add_only": True,
        },
        "engines": [{
            "name": "detsim", "path": "/verif/detsim",
            "serves_properties": [c["property_id"] for c in checks],
            "kind_free_text": "deterministic simulator written for this task: one integer -> explicit JSON plan -> isolated run (forked from a pristine image) -> verdict; baton-passing real threads pre-empted at sys.settrace line events (caller threads AND threads the library starts itself, with cooperative locks and simulated time: detsim/simthreads.py); simulated raw disk under the real io stack; storage-corruption operators; abort/EIO/EINTR fault injection; plan-level minimisation; replay confirmed in a fresh process",
        }],
        "checks": checks,
        "notes": "See DESIGN.md. Properties that are pure functions of their input are listed under not_applicable (the technique studied here does not decide them and no other technique was substituted). KNOWN_FINDINGS.txt records the genuine defects found and repaired (fix: commits in /repo).",
        "not_applicable": na,
    }
    with open(os.path.join(ROOT, "MANIFEST.json"), "w") as f:
        json.dump(m, f, indent=1)
        f.write("\n")
    print("claimed:", [c["property_id"] for c in checks])


if __name__ == "__main__":
    main()
