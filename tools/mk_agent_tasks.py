#!/usr/bin/env python3
"""Writes TASK.md files for independent sub-agents that seed property-breaking changes.
Only the property text (and one-line descriptions of changes that already exist) goes in."""
import json
import sys

ROUND = sys.argv[1] if len(sys.argv) > 1 else "2"
ROUNDNOTE = ""
if int(ROUND) >= 4:
    ROUNDNOTE = ("In this round the obvious single-site slips are used up. Strongly prefer changes whose failure needs one of: "
                 "(i) a FAULT injected at a particular point - an I/O error or short read from the reader, a KeyboardInterrupt / MemoryError "
                 "raised in the middle of a parse, an exception thrown by a caller-supplied object (reader, logging handler, selection sequence); "
                 "(ii) TWO THREADS in one particular interleaving; (iii) a HISTORY of three or more steps in one process where an earlier step "
                 "leaves something behind; or (iv) TWO COOPERATING EDITS at different sites (possibly different files) that each look correct "
                 "alone and only break the property together. Where the property is about inputs only, prefer an unusual-but-legal input that "
                 "needs two features at once.")
if int(ROUND) >= 5:
    ROUNDNOTE += (" Ideas that have NOT been used yet: state hidden somewhere unusual (the class of an object, a default argument, "
                  "a closure, an enum member, an exception object, a regex cache, sys or logging state, the process environment); an "
                  "effect that only shows in an unusual observation (hash, ordering, identity, copying/pickling, iteration order, an "
                  "attribute few callers read); a threshold (size, count, depth) that small inputs never reach; a dependency on the "
                  "platform or interpreter configuration.")
TAKEN = {
 "C06": ["a per-call cache of parsed tracks keyed by the section body (identical bodies get the first section's labels)", "replacing read().splitlines() by line iteration with rstrip('\\n') (CRLF via untranslated readers)", "reading the file in fixed 65536-character chunks and gluing lines at chunk boundaries", "an un-anchored header regex so that '<valid header><suffix>' unknown sections are routed", "deriving the difficulty from the header with str.rstrip(instrument) (over-strips some of the 40 names)", "sniffing the file encoding from a fixed 4096-byte prefix in from_filepath", "two cooperating edits: a case-insensitive enum _missing_ plus routing by regex-splitting the header (case variants of valid headers get routed)", "a class-level header table filled lazily on first use (half-filled under two threads or after an abort)"],
 "C11": ["a fast path in the proximal-event search that runs before the hint is validated", "a single-entry 'last lookup' memo on the tempo map that is not exception-safe", "a galloping (exponential) search that drops the last tempo event for some hint distances", "a lazily built bisect index on the tempo map that is published before it is complete (two threads)", "enumerate() over a slice without start= so the returned index is slice-relative", "looking up the sustain-end timestamp for a tick computed from the raw lines instead of the stored sustain", "a recursive scan that hits RecursionError on tempo maps of ~1000 events", "a shared module-level probe object used for bisect (raced by two threads)"],
 "C13": ["a selection filter that became instruments x difficulties (cross product)", "stripping whitespace before comparing '{' / '}' / '[Header]' in the section partitioner", "tracks shared (same object / memo) between two sections with identical bodies", "a selection memo kept in class attributes that races between two threads with different selections", "iterating over the selection instead of the sections, so a pair listed twice re-reads an exhausted one-shot iterator", "a class-level header table filled lazily on first use (published half-filled to a second thread)", "a per-chart memo of tick->timestamp that skips the hint validation when another section already asked for the tick", "converting the selection to a frozenset with a TypeError fallback that means 'no restriction'"],
 "C14": ["a process-wide memo from line text to parse result, keyed by the text only", "a 'starts with a digit' fast path that raises IndexError on blank lines", "stale regex-match state carried from a parsable line to the following unparsable line after a flattened for/else", "treating whitespace-padded '{' / '}' lines inside a body as structural", "passing the already formatted warning (which contains the raw line) to logging as the %-format string", "widening the N-line regex so an unsupported index raises ValueError instead of RegexNotMatchError", "reusing one process-wide result map per kind tuple across parses (overlapping parses corrupt each other)", "chunked reading with splitlines() that glues two lines at a chunk boundary"],
 "C15": ["an exact-tick shortcut in timestamp_at_tick that skips the zero-tempo check", "collapsing tempo lines that repeat the current BPM before the ordering check", "a tempo regex that silently drops lines whose value is zero", "an implicit 4/4 time signature supplied when the tick-0 signature is missing", "sorting parsed data by tick inside the shared line dispatcher (re-orders tempo lines before the ordering check)", "skipping the 'tick precedes first event' guard when no hint is given (negative ticks slip through abs())", "chunked reading that merges a corrupt sync line into its neighbour at a short read", "a 'most recent sync track' memo whose key is stored before the value is built (not exception-safe)"],
 "C17": ["a mutable default argument dict in Metadata.from_chart_lines shared by all parses", "iterating the section headers through a set (hash-seed dependent order)", "a racy 'last tempo' memo at module level (switch between compare and use)", "a lazily filled section-name table that is left half-filled if the first parse of the process is aborted", "a tick-table memo keyed by id() of a list that may already be garbage", "a class-level scratch buffer that is cleared only on the success path", "a from_filepath result cache validated by (size, mtime)", "except Exception instead of except RegexNotMatchError in the line dispatcher (swallows MemoryError)"],
 "C18": ["a ':05' format spec applied to a tuple-valued sustain in __str__", "bypassing the validating wrapper so that a zero tempo reaches a division", "str() of a track without notes raising IndexError", "summing lane bits instead of OR-ing them so a duplicated lane line yields an unknown note value (KeyError)", "re-formatting str(timedelta) by splitting on ':' (breaks at >= 24 h)", "an assert that an open note never shares its tick with a lane note", "a line-parse cache with FIFO eviction that raises KeyError after ~4096 insertions", "repr=False on track dataclasses so repr races with cached_property fills (RuntimeError under two threads)"],
 "C19": ["a tick->time memo stored lazily in the Chart instance's __dict__", "an in-place sort of the track's note list inside the rate query", "a resume hint written in two steps on the shared tempo map (torn between two reader threads)", "track equality implemented through __dict__ so that reading a cached attribute on one twin breaks ==", "repr=False on the track dataclasses so the mixin repr iterates __dict__ while a cached_property fills it", "dropping frozen=True from SyncTrack to sort anchors in __post_init__", "a hand-written memo for last_note_end_timestamp stored inside the loop (partial value after an interrupt / for a concurrent reader)", "a class-level set of 'known missing tracks' shared by all Chart instances"],
 "C20": ["moving a TYPE_CHECKING-only import of a name from chartparse.sync to a runtime import in globalevents", "a module-level try/except ImportError import block in track.py that binds names depending on import order", "a package-level __getattr__ that raises KeyError depending on what has been imported", "a per-class rank number taken from a global class-creation counter (differs with import order)", "'from chartparse.track import *' re-exports in three modules (copies a partially initialised module)", "__version__ boilerplate in __init__.py whose 'from importlib import metadata' shadows the metadata submodule", "'from chartparse import track' alias in globalevents (stale module object after an interrupted and retried import)", "lazily imported event types cached as module globals of chartparse.track"],
}
FOCUS = {
 "C06": "Prefer changes that only show under particular I/O behaviour or configurations when the file is read *by path* or through unusual-but-legal reader objects: e.g. a read() that returns less than asked, a chunk boundary that falls inside a CRLF pair / inside the BOM / inside a multi-byte UTF-8 character, a file larger than some buffer size, a particular combination of BOM + CRLF + section order, an unknown section at a particular place, or one particular header name out of the 40.",
 "C11": "Prefer changes whose wrong timestamp is SILENT (no exception) and that need a particular tempo-map shape plus a particular order of events, a particular chain of hints passed from one event to the next (e.g. note start -> sustain end, or across event kinds), or several queries on the same tempo map in a particular order (possibly from two threads).",
 "C13": "Prefer changes where one instrument section influences another only in particular circumstances (particular contents, particular order of sections in the file, particular selection shapes such as duplicates / supersets / tuple-vs-list / a selection object that is reused by the caller for a second parse), or only when two parses run concurrently on two threads.",
 "C14": "Prefer changes that need a particular multiplicity or position of unparsable lines (first line, last line, two in a row, between the note lines of one chord), a particular section kind, or state carried from one section to the next within one parse.",
 "C15": "Prefer changes where a validator still exists and still works in isolation (the unit tests call validators directly) but is no longer reached - or reached too late - from file parsing for a corruption at one particular position or for one particular shape of sync data.",
 "C17": "Prefer changes that need (i) a particular interleaving of two threads parsing DIFFERENT charts concurrently (shared scratch state, a class attribute used as a temporary, a module-level cursor), or (ii) a parse that was ABORTED part-way by an exception raised inside it (KeyboardInterrupt / MemoryError / an I/O error) or that failed on a malformed chart, leaving state behind for the next parse, or (iii) a cache that fills up or evicts only after many different charts.",
 "C18": "Prefer changes where the leaked exception needs TWO things at once (a particular malformed line AND a particular position / neighbour / section kind), or only occurs while RENDERING (str/repr) a particular kind of event of a chart that parsed fine.",
 "C19": "Prefer changes that only show when TWO threads use one parsed chart at the same time in a particular interleaving (lazy attributes, iteration over a container while another thread looks something up), or that need a particular sequence of two or three different read-only operations, or that only affect equality / hashing / repr rather than the obvious data.",
 "C20": "Prefer changes where every single first-import still works and the difference only shows for a particular ordered PAIR or TRIPLE of imports, for a particular statement form ('from chartparse.x import *', 'from chartparse import x'), or as a difference in object identity (the same public name bound to two different objects in two modules) rather than a crash.",
}
TEMPLATE = '''You are helping to evaluate a verification tool by writing realistic *bugs* (seeded changes) for a small open-source Python library.

The library: `chartparse`, a pure-Python parser for Moonscraper / Guitar Hero `.chart` files. You have your OWN scratch git worktree of it at `@WT@` (package source in `@WT@/chartparse/`, tests in `@WT@/tests/`, sample data in `@WT@/tests/data/`). Work ONLY inside `@WT@` and `@OUT@`. Do NOT read, list or modify `/repo`, `/verif`, `/root` or any other directory (those belong to the tool being evaluated; your work must be independent of it). Do not commit anything in the worktree.

The library is supposed to satisfy this semantic property:

@PROPERTY@

YOUR TASK: produce TWO different source changes (call them `a` and `b`, of different nature / touching different mechanisms) to files under `@WT@/chartparse/` such that each change, applied on its own:
  1. BREAKS the property above (for some input / schedule / history / fault / usage), and
  2. still imports fine and PASSES the existing test suite unchanged: `cd @WT@ && /venv/bin/python -m pytest -q -p no:cacheprovider --timeout=900` must report `251 passed` (exactly one test, `tests/test_instrument.py::TestNoteEvent::TestEndTick::test_wrapper`, already fails on the unchanged tree - ignore that one; do not edit any test), and
  3. looks like something a real developer could plausibly write (a refactoring slip, a "performance optimisation", a cache, an over-eager cleanup, an off-by-one, a changed default ...) - not sabotage guarded by magic constants, and
  4. needs something SPECIFIC to manifest, so that ordinary use would not expose it at once.

@FOCUS@

@ROUNDNOTE@

Other people have ALREADY written the following changes for this property; do something of a DIFFERENT nature (different mechanism and different trigger):
@TAKEN@

For EACH change (`a` and `b`) deliver, in `@OUT@/a/` resp. `@OUT@/b/`:
  - `patch.diff`: output of `git -C @WT@ diff` with ONLY that change applied (must apply cleanly with `git apply` on the unchanged worktree);
  - `demo.py`: a small self-contained program demonstrating the violation through the library's public API. Run as `cd @WT@ && PYTHONPATH=@WT@ /venv/bin/python @OUT@/<a|b>/demo.py`. It must exit with status 0 on the UNCHANGED tree and with a non-zero status (e.g. a failed assertion with a clear message) on the tree with the change applied. It must be deterministic (if threads are involved, force the interleaving, e.g. with events/barriers, sys.settrace, or by hooking a callback - do not rely on luck or sleeps; if a fault is involved, inject it deterministically, e.g. a reader object whose read() raises or returns short, or an exception raised from a hook at a chosen point);
  - `notes.md`: 5-15 lines: what the change is, why it breaks the property, exactly what is needed for it to manifest, and why the existing tests do not notice.

Procedure you must follow for each change: edit the worktree -> run the test suite (must be 251 passed) -> run demo.py (must FAIL) -> save `git diff` to patch.diff -> `git -C @WT@ checkout -- .` -> run demo.py again (must PASS, exit 0) -> (for `b`) repeat from the clean tree. Finish with the worktree clean (`git -C @WT@ status --porcelain` prints nothing).

Use `/venv/bin/python` (Python 3.12; the package is importable with `PYTHONPATH=@WT@`; it is not installed). There is no network. Keep the changes small. In your final message, summarise for each change: files touched, one-line description, what it needs to manifest, and confirm the three verifications (suite green with change, demo fails with change, demo passes without).
'''
props = {json.loads(l)["id"]: json.loads(l) for l in open("/verif/properties.jsonl")}
for pid in FOCUS:
    p = props[pid]
    text = f"{pid} — {p['title']}\n\nSTATEMENT: {p['statement']}\n\nQUANTIFIER: {p['quantifier']['text']}\n"
    wt, out = f"/tmp/wt{ROUND}-{pid}", f"/tmp/seeded{ROUND}-{pid}"
    t = (TEMPLATE.replace("@WT@", wt).replace("@OUT@", out).replace("@PROPERTY@", text)
         .replace("@FOCUS@", FOCUS[pid]).replace("@ROUNDNOTE@", ROUNDNOTE).replace("@TAKEN@", "\n".join("  - " + x for x in TAKEN[pid])))
    open(f"{out}/TASK.md", "w").write(t)
print("ok")
