"""In-run monitors installed at seams that already exist in the code.

* DispatchMonitor wraps the module attribute ``chartparse.track.parse_data_from_chart_lines``
  (looked up at call time by sync, instrument and globalevents): conservation, kind-order
  permutation, claimant count.
* HintMonitor wraps the class attribute ``BPMEvents.timestamp_at_tick``: at every real call during
  a parse it re-evaluates the call with lowered hints.
"""

from __future__ import annotations

import threading
from typing import Any

from . import world

_tls = threading.local()


def set_tag(tag: Any) -> None:
    _tls.tag = tag


def get_tag() -> Any:
    return getattr(_tls, "tag", None)


class bypass:
    """Calls made inside are not monitored (used where the harness itself has changed what a
    correct dispatcher does, e.g. logging switched off by the application)."""

    def __enter__(self) -> None:
        self._old = getattr(_tls, "inside", False)
        _tls.inside = True

    def __exit__(self, *a: Any) -> None:
        _tls.inside = self._old


class DispatchMonitor:
    def __init__(self, permute_seed: int | None = None, check_claims: bool = True) -> None:
        import chartparse.track as ct

        self.ct = ct
        self.real = ct.parse_data_from_chart_lines
        self.calls: list[dict[str, Any]] = []
        self.problems: list[dict[str, Any]] = []
        self.permute_seed = permute_seed
        self.check_claims = check_claims
        self.probes: dict[str, int] = {}
        self.claims: dict[str, list[str]] = {}  # line -> kinds of its own dispatcher that accept it
        self._global_kinds: set[Any] | None = None

    def install(self) -> None:
        self.ct.parse_data_from_chart_lines = self

    def uninstall(self) -> None:
        self.ct.parse_data_from_chart_lines = self.real

    def _is_events_kind_list(self, types: Any) -> bool:
        if self._global_kinds is None:
            import chartparse.globalevents as ge

            self._global_kinds = {ge.TextEvent.ParsedData, ge.SectionEvent.ParsedData,
                                  ge.LyricEvent.ParsedData}
        return any(t in self._global_kinds for t in types)

    def __call__(self, types: Any, lines: Any) -> Any:
        if getattr(_tls, "inside", False):
            return self.real(types, lines)
        lines = list(lines)
        types_l = list(types)
        logref = world.current_log()
        n0 = len(logref)
        m = self.real(types, lines)
        # a report = a record that a handler can render; a record whose message cannot be formatted
        # reaches the user as a logging error, not as a report of the line
        recs = [r for r in logref[n0:] if not r[2].startswith(world.UNFORMATTABLE)]
        _tls.inside = True
        try:
            out = sum(len(m[t]) for t in types_l)
            rec = {"tag": get_tag(), "kinds": [t.__qualname__ for t in types_l],
                   "n_in": len(lines), "out": out, "warned": len(recs),
                   "messages": [r[2] for r in recs], "events_kinds": self._is_events_kind_list(types_l)}
            self.calls.append(rec)
            if len(lines) != out + len(recs):
                self.problems.append({"oracle": "conservation", "rec": rec,
                                      "detail": f"{len(lines)} lines in, {out} data out, "
                                                f"{len(recs)} 'unparsable' reports"})
            if self.check_claims:
                from chartparse.exceptions import RegexNotMatchError

                with world.shadow():
                    for line in dict.fromkeys(lines):
                        if line in self.claims:
                            continue
                        claim = []
                        for t in types_l:
                            try:
                                t.from_chart_line(line)
                                claim.append(t.__qualname__)
                            except RegexNotMatchError:
                                pass
                            except Exception:  # noqa: BLE001 - a recogniser that blows up is not a claim
                                claim.append("!" + t.__qualname__)
                        self.claims[line] = claim
            if not rec["events_kinds"] and len(types_l) > 1:
                with world.shadow():
                    if self.permute_seed is not None:
                        import random

                        perm = list(types_l)
                        random.Random(self.permute_seed + len(self.calls)).shuffle(perm)
                        if perm == types_l:
                            perm = perm[1:] + perm[:1]
                        m2 = self.real(tuple(perm), lines)
                        self.probes["kind_order_permuted"] = self.probes.get("kind_order_permuted", 0) + 1
                        for t in types_l:
                            if list(m[t]) != list(m2[t]):
                                self.problems.append({
                                    "oracle": "order-dependence", "rec": rec,
                                    "detail": f"kinds tried as {[x.__qualname__ for x in perm]} give "
                                              f"{len(m2[t])} {t.__qualname__} data instead of {len(m[t])}"})
                                break
                    if self.check_claims:
                        for line in dict.fromkeys(lines):
                            claim = [c for c in self.claims.get(line, []) if not c.startswith("!")]
                            self.probes["lines_tried_on_every_kind"] = self.probes.get("lines_tried_on_every_kind", 0) + 1
                            if len(claim) > 1:
                                self.problems.append({"oracle": "double-claim", "rec": rec,
                                                      "detail": f"line {line!r} is claimed by {claim}"})
                                break
        finally:
            _tls.inside = False
        return m


class HintMonitor:
    """Wraps BPMEvents.timestamp_at_tick at class level (observe + re-evaluate with lower hints)."""

    def __init__(self, lower_seed: int = 0) -> None:
        from chartparse.sync import BPMEvents

        self.cls = BPMEvents
        self.real = BPMEvents.__dict__["timestamp_at_tick"]
        self.problems: list[dict[str, Any]] = []
        self.probes: dict[str, int] = {}
        self.lower_seed = lower_seed
        self.n = 0

    def install(self) -> None:
        mon = self
        real = self.real

        def timestamp_at_tick(self_: Any, *args: Any, **kwargs: Any) -> Any:
            # transparent whatever the calling convention of the tree under test is
            if getattr(_tls, "inside_hint", False):
                return real(self_, *args, **kwargs)
            res = real(self_, *args, **kwargs)
            try:
                tick = args[0] if args else kwargs["tick"]
                hint = kwargs.get("start_iteration_index", args[1] if len(args) > 1 else 0)
            except (KeyError, IndexError):
                return res  # another signature: observe nothing rather than guess
            if isinstance(hint, int):
                mon.observe(self_, tick, hint, res)
            return res

        timestamp_at_tick.__wrapped__ = real  # type: ignore[attr-defined]
        self.cls.timestamp_at_tick = timestamp_at_tick  # type: ignore[method-assign]

    def uninstall(self) -> None:
        self.cls.timestamp_at_tick = self.real  # type: ignore[method-assign]

    def observe(self, be: Any, tick: Any, hint: int, res: Any) -> None:
        import sys

        self.n += 1
        caller = sys._getframe(2).f_code.co_qualname
        if hint > 0:
            self.probes["hint>0:" + caller] = self.probes.get("hint>0:" + caller, 0) + 1
        else:
            self.probes["hint=0:" + caller] = self.probes.get("hint=0:" + caller, 0) + 1
        if hint <= 0:
            return
        _tls.inside_hint = True
        try:
            lows = {0, (self.lower_seed + self.n) % (hint + 1)}
            for h in sorted(lows):
                if h == hint:
                    continue
                try:
                    alt = self.real(be, tick, start_iteration_index=h)
                except TypeError:
                    # the tree's query has another signature: nothing to re-evaluate
                    self.probes["hint_reevaluation_unavailable"] = self.probes.get(
                        "hint_reevaluation_unavailable", 0) + 1
                    return
                except Exception as e:  # noqa: BLE001
                    alt = ("exc", type(e).__name__)
                if alt != res:
                    self.problems.append({
                        "oracle": "callsite", "caller": caller,
                        "detail": f"{caller}: timestamp_at_tick({tick}, start_iteration_index={hint}) "
                                  f"returned {res} but with hint {h} it gives {alt}"})
                    return
        finally:
            _tls.inside_hint = False
