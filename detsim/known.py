"""Known-findings file: committed, never written at run time.

  known: property=<id> key=<signature> <what fails>     -> matching violations become
                                                            KNOWN-FINDING lines (exit 0)
  fixed: property=<id> <commit> <what failed>           -> suppresses nothing

A signature names the failing call shape (oracle, operation kind, exception type, ...), never a
seed, step number or text, so a *different* violation of the same property is still reported.
"""

from __future__ import annotations

import os
from dataclasses import dataclass

from . import env

PATH = os.path.join(env.VERIF_ROOT, "KNOWN_FINDINGS.txt")


@dataclass(frozen=True)
class Known:
    prop: str
    key: str
    text: str


def load(prop: str) -> list[Known]:
    out: list[Known] = []
    if not os.path.exists(PATH):
        return out
    with open(PATH, encoding="utf-8") as f:
        for line in f:
            line = line.strip()
            if not line.startswith("known:"):
                continue
            parts = line[len("known:"):].split()
            kv = dict(p.split("=", 1) for p in parts[:2] if "=" in p)
            if kv.get("property") == prop and "key" in kv:
                out.append(Known(prop, kv["key"], " ".join(parts[2:])))
    return out


def match(known_list: list[Known], sig: str) -> Known | None:
    for k in known_list:
        if sig == k.key:
            return k
    return None
