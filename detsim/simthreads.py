"""Threads and blocking primitives that the code under test creates ITSELF, under the simulator.

Until this module existed the baton scheduler owned the caller threads only: a thread pool inside
the library ran under the interpreter's own scheduling (the run stopped being a function of its
seed) and a lock held across a pre-emption point would have deadlocked the baton, so line-level
pre-emption was switched off for any tree that mentioned a blocking primitive.  Now:

* ``threading.Lock`` / ``RLock`` / ``_allocate_lock`` hand out **cooperative** locks while the
  package is imported and while a simulation runs.  ``Condition``, ``Event``, ``Semaphore``,
  ``Barrier``, ``queue.Queue`` and (through ``queue._PySimpleQueue``) ``queue.SimpleQueue`` are
  pure Python on top of those, so ``concurrent.futures.ThreadPoolExecutor`` needs nothing else.
  A cooperative lock is a real ``_thread.lock`` underneath; only *blocking* differs: a simulated
  thread that would block hands the baton to a runnable thread chosen by the schedule and is
  runnable again when the lock is free.  Threads outside the simulation (harness main thread,
  reference computations) use the real blocking path.
* ``Thread.start`` called by a simulated thread **adopts** the new thread: it becomes one more
  client of the scheduler (pre-empted at line events like the others, chosen by the same tape).
  ``Thread.join`` / ``is_alive`` follow the simulated life of an adopted thread.
* Timed waits and ``time.sleep`` use **simulated time**: a timed wait expires only when no
  thread is runnable (the clock jumps to the earliest deadline).
* If no thread is runnable, nobody waits on a timer and a caller's operation has not returned,
  the run has **deadlocked**: reported by the scheduler as ``SimDeadlock``.

Nothing in here draws a random number or reads a real clock for a decision.
"""

from __future__ import annotations

import _thread
import concurrent.futures._base as _cf_base
import queue
import threading
import time
from typing import Any

_real_allocate = _thread.allocate_lock
_orig = {
    "Lock": threading.Lock,
    "_allocate_lock": threading._allocate_lock,  # type: ignore[attr-defined]
    "_CRLock": threading._CRLock,  # type: ignore[attr-defined]
    "_time": threading._time,  # type: ignore[attr-defined]
    "start": threading.Thread.start,
    "join": threading.Thread.join,
    "is_alive": threading.Thread.is_alive,
    "SimpleQueue": queue.SimpleQueue,
    "sleep": time.sleep,
    "thread_init": threading.Thread.__init__,
    "future_init": _cf_base.Future.__init__,
    "queue_time": queue.time,  # type: ignore[attr-defined]
}

ACTIVE: Any = None  # the Scheduler of the simulation that is running in this process, if any
_installed = False
_tls = threading.local()


class raw:
    """Inside: the calling thread uses real primitives (bootstrap of an adopted thread)."""

    def __enter__(self) -> None:
        _tls.raw = getattr(_tls, "raw", 0) + 1

    def __exit__(self, *a: Any) -> None:
        _tls.raw -= 1


_clients: dict[int, Any] = {}  # thread ident -> simulated client (set by the thread itself)


def register_current(client: Any) -> None:
    _clients[_thread.get_ident()] = client


def unregister_current() -> None:
    _clients.pop(_thread.get_ident(), None)


def current_client() -> Any:
    """The simulated client of the calling thread.  By thread ident, never through
    ``threading.current_thread()``: that one fabricates (and registers) a dummy Thread object when
    it is called in the bootstrap window of a thread that is not in ``threading._active`` yet."""
    return _clients.get(_thread.get_ident())


def baton_holder() -> Any:
    """The simulated client the calling thread is, if a simulation is running and the thread
    takes part in it (started, not finished, not in a raw section)."""
    if ACTIVE is None:
        return None
    c = _clients.get(_thread.get_ident())
    if c is None or c.finished or not c.started or getattr(_tls, "raw", 0):
        return None
    return c


class CoopLock:
    """``threading.Lock`` whose blocking path belongs to the scheduler."""

    __slots__ = ("_real", "__weakref__")

    def __init__(self) -> None:
        self._real = _real_allocate()

    def acquire(self, blocking: bool = True, timeout: float = -1) -> bool:
        r = self._real
        if r.acquire(False):
            return True
        if not blocking or timeout == 0:
            return False
        cur = baton_holder()
        if cur is None:
            return r.acquire(True, timeout)
        return ACTIVE.block_on(cur, self, None if timeout is None or timeout < 0 else float(timeout))

    __enter__ = acquire

    def release(self) -> None:
        self._real.release()

    def __exit__(self, *a: Any) -> None:
        self._real.release()

    def locked(self) -> bool:
        return self._real.locked()

    def _at_fork_reinit(self) -> None:
        self._real._at_fork_reinit()

    def __repr__(self) -> str:
        return f"<cooperative {'locked' if self._real.locked() else 'unlocked'} lock>"


def _coop_allocate() -> Any:
    if getattr(_tls, "raw", 0):
        return _real_allocate()
    return CoopLock()


_NEVER = CoopLock()
_NEVER._real.acquire()


def _sim_sleep(secs: float) -> None:
    cur = baton_holder()
    if cur is None:
        return _orig["sleep"](secs)
    ACTIVE.probe("library_sleep_in_simulated_time")
    ACTIVE.block_on(cur, _NEVER, max(0.0, float(secs)))
    return None


def _sim_time() -> float:
    if baton_holder() is not None:
        return ACTIVE.sim_clock
    return _orig["_time"]()


def _start(self: threading.Thread) -> None:
    cur = baton_holder()
    if cur is None:
        return _orig["start"](self)
    sched = ACTIVE
    client = sched.adopt(self, cur)
    orig_run = self.run

    def run() -> None:
        register_current(client)
        client.sem.acquire()
        client.started = True
        try:
            sched.arm_adopted(client)
            orig_run()
        finally:
            sched.disarm_adopted(client)
            unregister_current()
            sched.finish(client)

    self.run = run  # type: ignore[method-assign]
    with raw():
        # the starter waits for the new thread's bootstrap for real (no simulated step passes)
        self._started = threading.Event()  # type: ignore[attr-defined]
        _orig["start"](self)
    return None


def _join(self: threading.Thread, timeout: float | None = None) -> None:
    client = getattr(self, "sim_client", None)
    cur = baton_holder()
    if cur is None or client is None or not getattr(client, "adopted", False):
        return _orig["join"](self, timeout)
    if client.exit_lock.acquire(True, -1 if timeout is None else timeout):
        client.exit_lock.release()
        with raw():
            _orig["join"](self, 5.0)  # the few real instructions between finish() and thread exit
    return None


def _is_alive(self: threading.Thread) -> bool:
    client = getattr(self, "sim_client", None)
    if client is not None and getattr(client, "adopted", False) and ACTIVE is not None:
        return not client.finished
    return _orig["is_alive"](self)


def _seq_hash(self: Any) -> int:
    # Thread and Future objects hash by address by default, so the order of ``set``s of them
    # (ThreadPoolExecutor._threads, as_completed's pending set) would depend on the allocator - a
    # source of nondeterminism no plan controls.  Objects made by simulated threads hash by their
    # creation number within the run instead.
    n = self.__dict__.get("_sim_seq")
    return n if n is not None else object.__hash__(self)


def _number(obj: Any) -> None:
    sched = ACTIVE
    if sched is not None and baton_holder() is not None:
        sched.obj_seq += 1
        obj.__dict__["_sim_seq"] = sched.obj_seq


def _thread_init(self: threading.Thread, *a: Any, **k: Any) -> None:
    _number(self)
    _orig["thread_init"](self, *a, **k)


def _future_init(self: Any, *a: Any, **k: Any) -> None:
    _number(self)
    _orig["future_init"](self, *a, **k)


def install() -> None:
    """Cooperative allocators and thread adoption on.  Idempotent.  Objects made while this is
    on stay cooperative for life (and behave like real ones outside a simulation)."""
    global _installed
    if _installed:
        return
    threading.Lock = _coop_allocate  # type: ignore[assignment,misc]
    threading._allocate_lock = _coop_allocate  # type: ignore[attr-defined]
    threading._CRLock = None  # type: ignore[attr-defined]  # RLock() -> the pure-Python RLock
    threading._time = _sim_time  # type: ignore[attr-defined]
    threading.Thread.start = _start  # type: ignore[method-assign]
    threading.Thread.join = _join  # type: ignore[method-assign]
    threading.Thread.is_alive = _is_alive  # type: ignore[method-assign]
    threading.Thread.__init__ = _thread_init  # type: ignore[method-assign]
    threading.Thread.__hash__ = _seq_hash  # type: ignore[method-assign,assignment]
    _cf_base.Future.__init__ = _future_init  # type: ignore[method-assign]
    _cf_base.Future.__hash__ = _seq_hash  # type: ignore[method-assign,assignment]
    queue.SimpleQueue = queue._PySimpleQueue  # type: ignore[attr-defined,misc]
    queue.time = _sim_time  # type: ignore[attr-defined]  # 'from time import monotonic as time'
    time.sleep = _sim_sleep
    _installed = True


def uninstall() -> None:
    global _installed
    if not _installed:
        return
    threading.Lock = _orig["Lock"]  # type: ignore[misc]
    threading._allocate_lock = _orig["_allocate_lock"]  # type: ignore[attr-defined]
    threading._CRLock = _orig["_CRLock"]  # type: ignore[attr-defined]
    threading._time = _orig["_time"]  # type: ignore[attr-defined]
    threading.Thread.start = _orig["start"]  # type: ignore[method-assign]
    threading.Thread.join = _orig["join"]  # type: ignore[method-assign]
    threading.Thread.is_alive = _orig["is_alive"]  # type: ignore[method-assign]
    threading.Thread.__init__ = _orig["thread_init"]  # type: ignore[method-assign]
    _cf_base.Future.__init__ = _orig["future_init"]  # type: ignore[method-assign]
    for cls in (threading.Thread, _cf_base.Future):
        if "__hash__" in cls.__dict__:
            del cls.__hash__
    queue.SimpleQueue = _orig["SimpleQueue"]  # type: ignore[misc]
    queue.time = _orig["queue_time"]  # type: ignore[attr-defined]
    time.sleep = _orig["sleep"]
    _installed = False


class RawSem:
    """Binary semaphore for the baton (a bare ``_thread.lock``; never cooperative)."""

    __slots__ = ("_l",)

    def __init__(self) -> None:
        self._l = _real_allocate()
        self._l.acquire()

    def acquire(self, timeout: float | None = None) -> bool:
        return self._l.acquire(True, -1 if timeout is None else timeout)

    def release(self) -> None:
        self._l.release()
