"""Storage-corruption operators on the stored representation of a chart.

Every operator is a pure function of (lines, explicit arguments); the planner draws the arguments
from the run's PRNG and records them, so a plan replays without any PRNG.  Each application
reports whether it actually changed the content (``fired``).
"""

from __future__ import annotations

import random
import re
from typing import Any

ALPHABET = list("0123456789") + [" ", " ", "=", "N", "S", "E", "B", "T", "A", '"', "[", "]", "{",
                                 "}", "l", "y", "r", "i", "c", "s", "e", "t", "o", "n", "é", "\t",
                                 "-", "x"]

_DIGITS9 = re.compile(r"\d{9,}")
_TS_EXP = re.compile(r"TS\s+\d+\s+(\d+)")


def within_bounds(lines: list[str]) -> bool:
    """The stated bounds of C18: numeric tokens of at most 8 digits, TS exponents below 64."""
    for ln in lines:
        if _DIGITS9.search(ln):
            return False
        for m in _TS_EXP.finditer(ln):
            if int(m.group(1)) >= 64:
                return False
    return True


def gen_op(rng: random.Random, lines: list[str]) -> dict[str, Any]:
    n = len(lines)
    kind = rng.choice(["line_drop", "line_dup", "line_swap", "line_move", "char_insert",
                       "char_delete", "char_replace", "char_replace", "truncate", "line_insert"])
    if n == 0:
        kind = "line_insert"
    op: dict[str, Any] = {"kind": kind}
    if kind in ("line_drop", "line_dup"):
        op["i"] = rng.randrange(n)
    elif kind in ("line_swap", "line_move"):
        op["i"] = rng.randrange(n)
        op["j"] = rng.randrange(n)
    elif kind == "line_insert":
        op["i"] = rng.randrange(n + 1)
        op["line"] = rng.choice(FRAGMENTS)
    elif kind == "truncate":
        op["i"] = rng.randrange(n)
        op["c"] = rng.randrange(len(lines[op["i"]]) + 1)
    else:
        op["i"] = rng.randrange(n)
        op["c"] = rng.randrange(len(lines[op["i"]]) + 1)
        op["ch"] = rng.choice(ALPHABET)
    return op


def apply_op(lines: list[str], op: dict[str, Any]) -> list[str]:
    out = list(lines)
    k = op["kind"]
    n = len(out)
    if k == "line_insert":
        out.insert(min(op["i"], n), op["line"])
        return out
    if k == "line_flood":
        # a run of many copies of one line (a section full of lines of one kind: thresholds,
        # budgets and caches that a handful of lines never reach)
        i0 = min(op["i"], n)
        return out[:i0] + [op["line"]] * int(op["count"]) + out[i0:]
    if n == 0:
        return out
    i = op["i"] % n
    if k == "line_drop":
        del out[i]
    elif k == "line_dup":
        out.insert(i, out[i])
    elif k == "line_swap":
        j = op["j"] % n
        out[i], out[j] = out[j], out[i]
    elif k == "line_move":
        j = op["j"] % n
        ln = out.pop(i)
        out.insert(j, ln)
    elif k == "truncate":
        out = out[:i] + [out[i][: op["c"]]]
    elif k == "char_insert":
        c = min(op["c"], len(out[i]))
        out[i] = out[i][:c] + op["ch"] + out[i][c:]
    elif k == "char_delete":
        if out[i]:
            c = min(op["c"], len(out[i]) - 1)
            out[i] = out[i][:c] + out[i][c + 1:]
    elif k == "char_replace":
        if out[i]:
            c = min(op["c"], len(out[i]) - 1)
            out[i] = out[i][:c] + op["ch"] + out[i][c + 1:]
    else:
        raise ValueError(k)
    return out


# fragments for assembling arbitrary texts (headers, braces, canonical and near-canonical lines
# of every kind, junk)
FRAGMENTS = [
    "[Song]", "[SyncTrack]", "[Events]", "[ExpertSingle]", "[EasyDrums]", "[HardGHLCoop]",
    "[MediumKeyboard]", "[Foo]", "[]", "[[Song]]", "[Song] ", " [Song]", "{", "}", " {", "} ", "{}",
    "  Resolution = 192", "  Resolution = 0", "  Resolution = 1", '  Resolution = "480"',
    "  Resolution = x", "  Offset = 0", "  Offset = -1", "  Player2 = bass", "  Player2 = drums",
    '  Name = "a"', "  Name = ", '  Name = """', "  Difficulty = 3", '  Year = ", 2018"',
    "  0 = B 120000", "  0 = B 0", "  0 = B 1", "  0 = B 99999999", "  10 = B 60000",
    "  10 = B 999", "  5 = B 120000", "  0 = TS 4", "  0 = TS 4 2", "  0 = TS 0 0", "  0 = TS 3 63",
    "  7 = TS 6 3", "  1 = TS 4", "  0 = A 0", "  50 = A 123456", "  0 = A 99999999",
    '  0 = E "section a"', '  5 = E "lyric la"', '  9 = E "text"', '  9 = E "a"b"', "  9 = E solo",
    '  99999999 = E "section far"', '  3 = E ""', '  3 = E "lyric "', '  3 = E "section "',
    "  0 = N 0 0", "  0 = N 5 0", "  0 = N 6 0", "  0 = N 7 0", "  0 = N 7 10", "  0 = N 4 99999999",
    "  4 = N 1 0", "  4 = N 2 50", "  4 = N 5 0", "  8 = N 3 0", "  8 = N 6 0", "  8 = N 8 0",
    "  99999999 = N 0 99999999", "  0 = S 2 10", "  0 = S 2 0", "  2 = S 2 99999999", "  4 = S 64 5",
    "  0 = S 0 5", "  4 = E solo", "  4 = E soloend", "  4 = E two words", "", " ", "junk",
    "0 = N 0 0", "= =", "  12 = N 0", "  x = N 0 0", "  ٣ = N 0 0", "  ٣ = B 120000",
    "  0 = TS ٣", "﻿[Song]", "  0 = B 120000 ", "  0 = A 5 ",
]


def assemble(rng: random.Random) -> list[str]:
    """A text assembled from fragments, biased towards something section-shaped."""
    lines: list[str] = []
    mode = rng.random()
    if mode < 0.5:
        # skeleton with random bodies
        heads = ["[Song]", "[SyncTrack]", "[Events]"] + [
            rng.choice(["[ExpertSingle]", "[EasyDrums]", "[HardGHLCoop]", "[Foo]", "[MediumKeyboard]"])
            for _ in range(rng.randint(0, 2))]
        if rng.random() < 0.3:
            rng.shuffle(heads)
        for h in heads:
            if rng.random() < 0.08:
                continue
            lines.append(h)
            if rng.random() > 0.04:
                lines.append("{")
            if h == "[Song]" and rng.random() < 0.8:
                lines.append(rng.choice(["  Resolution = 192", "  Resolution = 1", "  Resolution = 7"]))
            if h == "[SyncTrack]" and rng.random() < 0.8:
                lines.append("  0 = B " + rng.choice(["120000", "1", "60000", "0"]))
                if rng.random() < 0.8:
                    lines.append("  0 = TS 4")
            for _ in range(rng.randint(0, 6)):
                lines.append(rng.choice(FRAGMENTS))
            if rng.random() > 0.04:
                lines.append("}")
    else:
        for _ in range(rng.randint(0, 25)):
            lines.append(rng.choice(FRAGMENTS))
    return lines


# ----------------------------------------------------------------------------------------------
# structure helpers (for region-confined faults)
# ----------------------------------------------------------------------------------------------

def find_sections(lines: list[str]) -> list[dict[str, Any]]:
    """[{name, header, open, close}] by the framing the file format defines."""
    out = []
    i = 0
    n = len(lines)
    while i < n:
        m = re.match(r"^\[(.+?)\]$", lines[i])
        if m and i + 1 < n and lines[i + 1] == "{":
            j = i + 2
            while j < n and lines[j] != "}":
                j += 1
            out.append({"name": m.group(1), "header": i, "open": i + 1, "close": j})
            i = j + 1
        else:
            i += 1
    return out


# Lines that are unparsable *by the documented grammar* of the section they are put into.
JUNK_COMMON = ["", "   ", "free text", "= = =", "12 34", "0 = ", "0 = Q 1 2", "0 = N", "N 0 0",
               "0 == N 0 0", "zero = N 0 0", "0 = n 0 0", "{ }", "[x]", "0 = N 0 0 0 junk",
               "-5 = N 0 0", "0 = H 1"]
JUNK_INSTRUMENT = JUNK_COMMON + ["0 = N 8 0", "4 = N 9 10", "0 = S 64 10", "0 = S 0 10",
                                 "0 = S 1 10", "3 = E two words", "0 = B 120000", "0 = TS 4",
                                 "0 = TS 4 2", "0 = A 1000", '5 = E "lyric la"',
                                 '5 = E "section x y"', "Resolution = 192", 'Name = "x"']
JUNK_SYNC = JUNK_COMMON + ["0 = N 0 0", "0 = S 2 10", "4 = E solo", '4 = E "section a"',
                           '4 = E "lyric b"', "0 = B", "0 = TS", "0 = B x", "0 = B 12.5",
                           "0 = TS 4 2 1", "Resolution = 192", "0 = A", "0 = BPM 120000"]
JUNK_EVENTS = JUNK_COMMON + ["0 = N 0 0", "0 = S 2 10", "4 = E solo", "4 = E two words",
                             "0 = B 120000", "0 = TS 4", "0 = A 1000", '4 = E "has "inner" quotes"',
                             "4 = E 'single'", '4 = E "unterminated', "Resolution = 192"]
JUNK_SONG = ["", "free text", "Unknown = 5", "0 = N 0 0", "0 = B 120000", "Resolutio = 192",
             "= 192", "resolution = 192"]


def junk_for(section_name: str) -> list[str]:
    if section_name == "SyncTrack":
        return JUNK_SYNC
    if section_name == "Events":
        return JUNK_EVENTS
    if section_name == "Song":
        return JUNK_SONG
    return JUNK_INSTRUMENT
