"""Deterministic scheduler: baton-passing real threads, pre-empted at line events.

Exactly one client thread is runnable at any instant: every client blocks on its own semaphore
and runs only while it holds the baton.  Pre-emption points are ``sys.settrace`` ``line`` events
in frames whose code lives under ``$VERIF_REPO/chartparse/`` plus operation boundaries.  Who runs
next is decided by the schedule (a generated tape or an explicit replay tape), never by the OS.

The scheduler also delivers *abort faults* ("crash points"): at a chosen local step of a chosen
operation the trace function raises inside the running chartparse frame.
"""

from __future__ import annotations

import hashlib
import os
import random
import sys
import threading
from typing import Any, Callable

from . import simthreads


class SimAbort(BaseException):
    """Cancellation-shaped fault (KeyboardInterrupt-like): not an ``Exception``."""


class HarnessError(Exception):
    """Something went wrong in the machinery (never reported as a violation)."""


class StepCap(HarnessError):
    pass


class SimDeadlock(HarnessError):
    """Every simulated thread waits for a lock that another one holds (or that nobody will ever
    release) while a caller's operation has not returned.  Raised by ``Scheduler.run``; a check
    that judges operations may turn it into a verdict (an operation that never returns)."""


class Client:
    def __init__(self, idx: int) -> None:
        self.idx = idx
        self.sem = simthreads.RawSem()
        self.finished = False
        # threads and locks made by the code under test (simthreads)
        self.adopted = False  # a thread the library started itself, adopted by the scheduler
        self.root: "Client" = self  # the caller thread on whose behalf this thread works
        self.blocked_on: Any = None  # cooperative lock this thread waits for
        self.deadline: float | None = None  # simulated time at which a timed wait expires
        self.timed_out = False
        self.exit_lock: Any = None  # held while an adopted thread lives (join waits for it)
        self.atomic_depth = 0  # > 0: inside an observer / model section (untraced)
        self.untraced = False  # adopted while its starter ran harness code: never pre-empted
        self.released = False  # the run is over: a background thread of the library goes on for real
        self.started = False
        self.thread: threading.Thread | None = None
        self.priority = 0
        # per-operation state
        self.op_index = -1
        self.op_step = 0
        self.abort_at: int | None = None
        self.abort_exc: BaseException | None = None
        self.abort_fired_at: str | None = None
        self.abort_in: str | None = None
        self.abort_hits = 0
        self.abort_cold: frozenset[tuple[str, int]] | None = None
        self.after_write = False
        self.prev_was_write = False
        self.in_op = False
        self.log: list[list[str]] = []  # log records emitted by this client during current op
        self.error: BaseException | None = None
        self.trace_fn: Callable[..., Any] | None = None
        self.log_fault: dict[str, Any] | None = None  # fault in the application log handler
        self.suspended = 1  # opcode granularity: > 0 = instruction events of this thread ignored


class Scheduler:
    def __init__(self, schedule: dict[str, Any], n_clients: int, pkg_dir: str, *,
                 step_cap: int = 4_000_000, hang_timeout_s: float = 120.0,
                 preempt_lines: bool = True) -> None:
        self.schedule = schedule
        self.mode = schedule.get("mode", "sequential")
        self.pkg_prefix = os.path.join(os.path.abspath(pkg_dir), "")
        self.clients = [Client(i) for i in range(n_clients)]
        self.global_step = 0
        self.step_cap = step_cap
        self.hang_timeout_s = hang_timeout_s
        self.preempt_lines = preempt_lines and self.mode != "sequential"
        if self.mode == "explicit" and "trace_primaries" in schedule:
            self.preempt_lines = preempt_lines and bool(schedule["trace_primaries"])
        self.lines_allowed = preempt_lines
        # "widen": line events also in a few lock-free stdlib frames that C-level container
        # operations call back into (Enum.__hash__, DynamicClassAttribute.__get__,
        # cached_property.__get__, the Sequence mixin methods): a dict operation keyed by an enum
        # member is not atomic.  On for a quarter of the scheduled runs (a function of the schedule
        # seed), always on for threads the library started itself.
        self.widen = bool(schedule.get("widen", int(schedule.get("seed", 0)) % 4 == 1))
        self._wide_codes = _wide_code_objects()
        self._cb_rng = random.Random(int(schedule.get("seed", 0)) ^ 0x5EED_CB)
        self._cb_hold_until = 0
        self._adopt_gap = self._cb_rng.choice([3, 10, 30, 100])
        self._adopt_next = 0
        # "line": sys.settrace line events; "opcode": sys.monitoring INSTRUCTION events on every
        # code object of the package (incl. dataclass-generated methods) and on a few lock-free
        # stdlib helpers the package's shared state passes through (cached_property.__get__)
        self.granularity = schedule.get("granularity", "line") if self.preempt_lines else "line"
        self._mon_installed = False
        self.decisions: list[list[Any]] = []  # [step, kind, from, to, where]
        self.switches = 0
        self.mid_op_switches = 0
        self.events = hashlib.sha256()  # event-log digest (decisions + op records)
        self.interleaving = hashlib.sha256()  # (thread, location) at switches + op order
        self.loc_pairs: set[str] = set()
        self.done = simthreads.RawSem()
        self.obj_seq = 0  # creation numbers of Thread / Future objects made by simulated threads
        self.sim_clock = 1000.0  # simulated seconds; advances only when a timed wait expires
        self.deadlock: str | None = None
        self.current: Client | None = None
        self.probes: dict[str, int] = {}
        self._last_loc: dict[int, str] = {}
        self._rng = random.Random(int(schedule.get("seed", 0)))
        self._next_switch = 0
        self._explicit: dict[int, int] = {}
        self._pct_points: set[int] = set()
        self._low = 0
        if self.mode == "explicit":
            for step, target in schedule.get("switches", []):
                self._explicit[int(step)] = int(target)
        elif self.mode == "geometric":
            self._gap = max(1, int(schedule.get("gap", 30)))
            self._next_switch = 1 + self._draw_gap()
        elif self.mode == "pct":
            est = max(10, int(schedule.get("est_steps", 10_000)))
            d = int(schedule.get("d", 2))
            self._pct_points = {self._rng.randrange(1, est) for _ in range(d)}
            order = list(range(n_clients))
            self._rng.shuffle(order)
            for prio, idx in enumerate(order):
                self.clients[idx].priority = prio + 1  # larger = runs first
        elif self.mode == "sequential":
            self._p_boundary = float(schedule.get("p_boundary", 0.5))
        elif self.mode == "writes":
            # switch right AFTER a line that writes to the heap (STORE_ATTR / STORE_SUBSCR /
            # STORE_GLOBAL / mutating method calls), then let the other thread run for a long
            # stretch: "A has just half-updated shared state, B runs through it"
            self._p_write = float(schedule.get("p", 0.3))
            self._hold = max(1, int(schedule.get("hold", 500)))
            self._hold_until = 0
        self._write_lines: dict[int, frozenset[int]] = {}

    # ------------------------------------------------------------------ helpers
    def probe(self, name: str, n: int = 1) -> None:
        self.probes[name] = self.probes.get(name, 0) + n

    def _draw_gap(self) -> int:
        return int(self._rng.expovariate(1.0 / self._gap))

    def _runnable(self) -> list[Client]:
        return [c for c in self.clients
                if not c.finished and (c.blocked_on is None or not c.blocked_on.locked())]

    def record(self, *items: Any) -> None:
        """Add a record to the event log digest (op results etc.)."""
        self.events.update(repr(items).encode("utf-8", "backslashreplace"))

    # ------------------------------------------------------------------ decisions
    def _decide(self, cur: Client, boundary: bool) -> Client | None:
        """Return the client that should run next (None = keep running)."""
        step = self.global_step
        if self.mode == "explicit":
            if step in self._explicit:
                runnable = self._runnable()
                tgt = self._explicit[step]
                for c in runnable:
                    if c.idx == tgt:
                        return c
                return runnable[tgt % len(runnable)] if runnable else None
            return None
        if self.mode == "sequential":
            if boundary:
                runnable = self._runnable()
                if len(runnable) > 1 and self._rng.random() < self._p_boundary:
                    return runnable[self._rng.randrange(len(runnable))]
            return None
        if self.mode == "geometric":
            if step >= self._next_switch:
                self._next_switch = step + 1 + self._draw_gap()
                others = [c for c in self._runnable() if c is not cur]
                if others:
                    return others[self._rng.randrange(len(others))]
            return None
        if self.mode == "writes":
            if cur.after_write and step >= self._hold_until and not boundary:
                cur.after_write = False
                if self._rng.random() < self._p_write:
                    others = [c for c in self._runnable() if c is not cur]
                    if others:
                        self._hold_until = step + 1 + int(self._rng.expovariate(1.0 / self._hold))
                        return others[self._rng.randrange(len(others))]
            elif boundary and step >= self._hold_until:
                runnable = self._runnable()
                if len(runnable) > 1 and self._rng.random() < 0.3:
                    return runnable[self._rng.randrange(len(runnable))]
            return None
        if self.mode == "pct":
            if step in self._pct_points:
                self._low -= 1
                cur.priority = self._low
                best = max(self._runnable(), key=lambda c: (c.priority, -c.idx))
                return best if best is not cur else None
            return None
        raise HarnessError(f"unknown schedule mode {self.mode}")

    def _pick_after_finish(self) -> Client | None:
        runnable = self._runnable()
        if not runnable:
            return None
        step = self.global_step
        if self.mode == "explicit":
            tgt = self._explicit.get(step)
            if tgt is not None:
                for c in runnable:
                    if c.idx == tgt:
                        return c
                return runnable[tgt % len(runnable)]
            return runnable[0]
        if self.mode == "pct":
            return max(runnable, key=lambda c: (c.priority, -c.idx))
        return runnable[self._rng.randrange(len(runnable))]

    # ------------------------------------------------------------------ yield points
    def _location(self, frame: Any) -> str:
        if frame is None:
            return "-"
        if isinstance(frame, tuple):
            code, offset = frame
            line = 0
            for start, end, ln in code.co_lines():
                if start <= offset < end and ln is not None:
                    line = ln
                    break
            return f"{os.path.basename(code.co_filename)}:{line}+{offset}:{code.co_qualname}"
        c = frame.f_code
        return f"{os.path.basename(c.co_filename)}:{frame.f_lineno}:{c.co_qualname}"

    _WRITE_OPS = frozenset({"STORE_ATTR", "STORE_SUBSCR", "STORE_GLOBAL", "DELETE_ATTR",
                            "DELETE_SUBSCR", "DELETE_GLOBAL", "STORE_DEREF", "STORE_NAME"})
    _MUTATORS = frozenset({"append", "extend", "update", "clear", "sort", "pop", "remove", "insert",
                           "setdefault", "add", "discard", "reverse", "popitem", "__setitem__",
                           "__setattr__", "cache_clear"})

    def _writes_of(self, code: Any, frame: Any = None) -> frozenset[int]:
        w = self._write_lines.get(id(code))
        if w is None:
            import collections
            import dis
            import weakref

            shared_types = (dict, list, set, bytearray, collections.deque, weakref.WeakValueDictionary,
                            weakref.WeakKeyDictionary, weakref.WeakSet)
            glob = frame.f_globals if frame is not None else {}
            lines = set()
            cur_line = code.co_firstlineno
            for ins in dis.get_instructions(code):
                if ins.starts_line is not None:
                    cur_line = ins.starts_line
                if ins.opname in self._WRITE_OPS or (
                        ins.opname in ("LOAD_ATTR", "LOAD_METHOD") and ins.argval in self._MUTATORS):
                    lines.add(cur_line)
                elif ins.opname == "LOAD_GLOBAL" and isinstance(glob.get(ins.argval), shared_types):
                    # a line that touches a module-level mutable container (a check-then-act
                    # window on process-wide state opens right after it)
                    lines.add(cur_line)
            w = frozenset(lines)
            self._write_lines[id(code)] = w
        return w

    def yield_point(self, cur: Client, frame: Any = None, boundary: bool = False) -> None:
        if cur.released:
            return
        self.global_step += 1
        if self.mode == "writes" and frame is not None and not isinstance(frame, tuple):
            # the line we are ABOUT to run is frame.f_lineno; the previous line of this client has
            # completed: if it was a write line we are now "just after a write"
            code = frame.f_code
            cur.after_write = cur.prev_was_write
            cur.prev_was_write = frame.f_lineno in self._writes_of(code, frame)
        if self.global_step > self.step_cap:
            raise StepCap(f"step cap {self.step_cap} exceeded")
        if cur.in_op and not boundary:
            cur.op_step += 1
            if cur.abort_cold is not None and cur.abort_at is not None and frame is not None:
                # crash point aimed at COLD code: the k-th pre-emption point on a line that only
                # the first execution in a process reaches (lazy initialisation, cache fills)
                if isinstance(frame, tuple):
                    code, offset = frame
                    ln = 0
                    for st, en, l2 in code.co_lines():
                        if st <= offset < en and l2 is not None:
                            ln = l2
                            break
                    key = (os.path.basename(code.co_filename), ln)
                else:
                    key = (os.path.basename(frame.f_code.co_filename), frame.f_lineno)
                if key in cur.abort_cold:
                    cur.abort_hits += 1
                    if cur.abort_hits >= cur.abort_at:
                        cur.abort_at = None
                        exc = cur.abort_exc
                        cur.abort_fired_at = self._location(frame)
                        self.record("abort", cur.idx, cur.op_index, cur.op_step, cur.abort_fired_at)
                        assert exc is not None
                        raise exc
            elif cur.abort_in is not None and cur.abort_at is not None and frame is not None:
                # targeted crash point: the k-th pre-emption point inside frames whose qualified
                # name contains the given text (places faults inside in-flight state)
                code = frame[0] if isinstance(frame, tuple) else frame.f_code
                if cur.abort_in in code.co_qualname:
                    cur.abort_hits += 1
                    if cur.abort_hits >= cur.abort_at:
                        cur.abort_at = None
                        exc = cur.abort_exc
                        cur.abort_fired_at = self._location(frame)
                        self.record("abort", cur.idx, cur.op_index, cur.op_step, cur.abort_fired_at)
                        assert exc is not None
                        raise exc
            elif cur.abort_at is not None and cur.op_step >= cur.abort_at:
                cur.abort_at = None
                exc = cur.abort_exc
                cur.abort_fired_at = self._location(frame)
                self.record("abort", cur.idx, cur.op_index, cur.op_step, cur.abort_fired_at)
                assert exc is not None
                raise exc
        nxt = None
        if self.mode != "explicit" and not boundary:
            if self.global_step < self._cb_hold_until:
                return  # the thread that was let in through a callback window runs undisturbed
            if frame is not None and not isinstance(frame, tuple) and frame.f_code in self._wide_codes:
                nxt = self._decide_callback_window(cur)
            elif cur.adopted and self.mode == "sequential":
                nxt = self._decide_adopted(cur)
        if nxt is None:
            nxt = self._decide(cur, boundary)
        if nxt is None or nxt is cur:
            return
        where = self._location(frame)
        self._switch(cur, nxt, "sw", where, mid_op=cur.in_op and not boundary)
        cur.sem.acquire()

    def _decide_callback_window(self, cur: Client) -> Client | None:
        """``cur`` is inside Python code that a C-level container operation called back into
        (``Enum.__hash__`` during a dict store, a descriptor ``__get__``): the operation is half
        done.  With probability 1/4 another thread is let in and runs for a long stretch."""
        self.probe("line_events_in_callback_windows")
        if self._cb_rng.random() < 0.25:
            others = [c for c in self._runnable() if c is not cur]
            if others:
                self._cb_hold_until = self.global_step + 1 + int(self._cb_rng.expovariate(1.0 / 1500))
                self.probe("switched_inside_callback_window")
                return others[self._cb_rng.randrange(len(others))]
        return None

    def _decide_adopted(self, cur: Client) -> Client | None:
        """History-only ("sequential") runs do not pre-empt the caller threads, but threads the
        library runs itself are concurrent whatever the caller does: pre-empt them geometrically."""
        if self.global_step >= self._adopt_next:
            self._adopt_next = self.global_step + 1 + int(self._cb_rng.expovariate(1.0 / self._adopt_gap))
            others = [c for c in self._runnable() if c is not cur]
            if others:
                return others[self._cb_rng.randrange(len(others))]
        return None

    def _switch(self, cur: Client, nxt: Client, kind: str, where: str, mid_op: bool) -> None:
        self.decisions.append([self.global_step, kind, cur.idx, nxt.idx, where])
        self.events.update(f"{self.global_step}:{kind}:{cur.idx}>{nxt.idx}@{where};".encode())
        self.interleaving.update(f"{kind}:{cur.idx}>{nxt.idx}@{where};".encode())
        if kind in ("sw", "blk", "tmo"):
            self.switches += 1
            if mid_op:
                self.mid_op_switches += 1
            prev = self._last_loc.get(nxt.idx, "start")
            self.loc_pairs.add(f"{where}|{prev}")
            self._last_loc[cur.idx] = where
        self.current = nxt
        nxt.sem.release()

    def finish(self, cur: Client) -> None:
        cur.finished = True
        if cur.adopted and cur.exit_lock is not None:
            cur.exit_lock.release()  # joiners become runnable
        self.global_step += 1
        nxt = self._pick_after_finish()
        kind = "fin"
        while nxt is None:
            if all(c.finished for c in self.clients if not c.adopted):
                # every caller thread is done; what is left are background threads of the library
                # that wait for work: the run is over
                self.events.update(f"{self.global_step}:end;".encode())
                self._release_background_threads(cur)
                self.done.release()
                return
            nxt = self._wake_by_time()
            kind = "tmo"
            if nxt is None:
                if self._grace():
                    nxt = self._pick_after_finish()
                    kind = "fin"
                    continue
                self._declare_deadlock(cur)
                return
        self._switch(cur, nxt, kind, "-", mid_op=False)

    # ------------------------------------------------------------------ library-made threads/locks
    def adopt(self, thread: threading.Thread, parent: Client) -> Client:
        """A thread started by a simulated thread becomes a client of this scheduler."""
        c = Client(len(self.clients))
        c.adopted = True
        c.root = parent.root
        c.thread = thread
        c.trace_fn = self.make_trace(c)
        c.exit_lock = simthreads.CoopLock()
        c.exit_lock.acquire()
        # started from an observer / model section or between operations (harness code using the
        # library, e.g. the fresh parse an oracle compares with): runs, blocks and wakes under the
        # scheduler like any other thread but is not pre-empted and adds no steps
        c.untraced = parent.untraced or parent.atomic_depth > 0 or not parent.in_op
        self._low -= 1
        c.priority = self._low
        thread.sim_client = c  # type: ignore[attr-defined]
        self.clients.append(c)
        self.probe("library_threads_adopted")
        self.record("adopt", parent.idx, c.idx)
        self.interleaving.update(f"adopt{parent.idx}>{c.idx};".encode())
        return c

    def arm_adopted(self, c: Client) -> None:
        c.in_op = True
        c.op_index = -1
        if self.lines_allowed and not c.untraced:
            if self.preempt_lines and self.granularity == "opcode":
                c.suspended = 0
            else:
                sys.settrace(c.trace_fn)

    def disarm_adopted(self, c: Client) -> None:
        sys.settrace(None)
        c.suspended = 1
        c.in_op = False

    def _release_background_threads(self, cur: Client) -> None:
        """The run is over: threads of the library that still wait (pool workers waiting for work)
        leave the simulation and block for real, so that library calls made by the harness after
        the simulation (a pool that outlives the parse) still find their workers."""
        simthreads.ACTIVE = None
        for c in self.clients:
            if c is not cur and c.adopted and not c.finished and not c.released:
                c.released = True
                self.probe("background_threads_released_at_end_of_run")
                c.sem.release()

    def _choose_other(self, others: list[Client]) -> Client:
        step = self.global_step
        if self.mode == "explicit":
            tgt = self._explicit.get(step)
            if tgt is not None:
                for c in others:
                    if c.idx == tgt:
                        return c
                return others[tgt % len(others)]
            return others[0]
        if self.mode == "pct":
            return max(others, key=lambda c: (c.priority, -c.idx))
        return others[self._rng.randrange(len(others))]

    def _wake_by_time(self) -> Client | None:
        """Nobody is runnable: simulated time jumps to the earliest deadline of a timed wait."""
        timed = [c for c in self.clients
                 if not c.finished and c.blocked_on is not None and c.deadline is not None]
        if not timed:
            return None
        w = min(timed, key=lambda c: (c.deadline, c.idx))
        assert w.deadline is not None
        self.sim_clock = max(self.sim_clock, w.deadline)
        w.timed_out = True
        self.probe("timed_wait_expired_in_simulated_time")
        return w

    def _grace(self) -> bool:
        """A lock may be held by a thread OUTSIDE the simulation (one the library started while it
        was imported): give it real time before calling the state a deadlock."""
        for _ in range(50):
            if any(not c.finished and c.blocked_on is not None and not c.blocked_on.locked()
                   for c in self.clients):
                self.probe("lock_released_by_thread_outside_the_simulation")
                return True
            simthreads._orig["sleep"](0.02)
        return False

    def _declare_deadlock(self, cur: Client) -> None:
        waiting = [f"client {c.idx}{' (library thread)' if c.adopted else ''} at {self._last_loc.get(c.idx, '?')}"
                   for c in self.clients if not c.finished and c.blocked_on is not None]
        self.deadlock = "no simulated thread can run: " + "; ".join(waiting)
        self.deadlock_locks = [c.blocked_on for c in self.clients
                               if not c.finished and c.blocked_on is not None]
        self.events.update(f"{self.global_step}:deadlock;".encode())
        self.done.release()

    def block_on(self, cur: Client, lock: Any, timeout: float | None) -> bool:
        """``cur`` would block on ``lock``: hand the baton to a thread that can run.  Returns True
        once the lock is held, False when the (simulated) timeout expired."""
        self.probe("blocked_on_library_lock")
        cur.blocked_on = lock
        cur.deadline = None if timeout is None else self.sim_clock + timeout
        where = "blocked:" + self._location(sys._getframe(2))
        self._last_loc[cur.idx] = where
        while True:
            self.global_step += 1
            if self.global_step > self.step_cap:
                raise StepCap(f"step cap {self.step_cap} exceeded")
            others = [c for c in self._runnable() if c is not cur]
            kind = "blk"
            if others:
                nxt = self._choose_other(others)
            else:
                if not lock.locked():
                    nxt = cur  # released by a thread outside the simulation
                elif all(c.finished for c in self.clients if not c.adopted):
                    # every caller thread is done and this background thread of the library waits
                    # for work that will never come: the run is over
                    self.events.update(f"{self.global_step}:end;".encode())
                    self._release_background_threads(cur)
                    cur.released = True
                    simthreads.unregister_current()
                    sys.settrace(None)
                    self.done.release()
                    # from here on this is an ordinary thread of the process (the harness may use
                    # the library again after the simulation, e.g. a pool that outlives the parse)
                    return lock._real.acquire(True, -1 if timeout is None else max(0.0, timeout))
                else:
                    w = self._wake_by_time()
                    kind = "tmo"
                    if w is None:
                        if self._grace():
                            continue
                        self._declare_deadlock(cur)
                        cur.sem.acquire()  # parked for good; the process is about to exit
                        raise SimAbort("deadlocked run is being torn down")
                    nxt = w
            if nxt is not cur:
                self._switch(cur, nxt, kind, where, mid_op=cur.in_op)
                cur.sem.acquire()
            if cur.released:
                # the run ended while this background thread of the library waited: it goes on as
                # an ordinary thread of the process
                simthreads.unregister_current()
                sys.settrace(None)
                return lock._real.acquire(True, -1 if timeout is None else max(0.0, timeout))
            if cur.timed_out:
                cur.timed_out = False
                cur.blocked_on = None
                cur.deadline = None
                return False
            if lock._real.acquire(False):
                cur.blocked_on = None
                cur.deadline = None
                return True

    # ------------------------------------------------------------------ tracing
    def make_trace(self, client: Client) -> Callable[..., Any]:
        prefix = self.pkg_prefix
        yp = self.yield_point

        def local_trace(frame: Any, event: str, arg: Any) -> Any:
            if event == "line":
                yp(client, frame)
            return local_trace

        wide = self._wide_codes if (self.widen or client.adopted) else frozenset()

        def global_trace(frame: Any, event: str, arg: Any) -> Any:
            if frame.f_code.co_filename.startswith(prefix) or frame.f_code in wide:
                return local_trace
            return None

        return global_trace

    def install_trace(self, client: Client) -> None:
        if not self.preempt_lines:
            return
        if self.granularity == "opcode":
            client.suspended = 0
        else:
            sys.settrace(client.trace_fn)

    # ---- opcode granularity (sys.monitoring) -------------------------------------------------
    TOOL_ID = 4

    def _package_code_objects(self) -> list[Any]:
        import functools
        import types

        seen: dict[int, Any] = {}
        prefix = self.pkg_prefix

        def add_code(co: Any) -> None:
            if id(co) in seen:
                return
            seen[id(co)] = co
            for k in co.co_consts:
                if isinstance(k, types.CodeType):
                    add_code(k)

        def add_callable(v: Any, generated_ok: bool) -> None:
            f = v
            for _ in range(4):
                if isinstance(f, (staticmethod, classmethod)):
                    f = f.__func__
                elif isinstance(f, functools.cached_property):
                    f = f.func
                elif isinstance(f, property):
                    for g in (f.fget, f.fset, f.fdel):
                        if g is not None:
                            add_callable(g, generated_ok)
                    return
                elif hasattr(f, "__wrapped__"):
                    f = f.__wrapped__
                else:
                    break
            co = getattr(f, "__code__", None)
            if isinstance(co, types.CodeType) and (
                    co.co_filename.startswith(prefix) or (generated_ok and co.co_filename == "<string>")):
                add_code(co)

        def walk_class(cls: type, modname: str, visited: set[int]) -> None:
            if id(cls) in visited:
                return
            visited.add(id(cls))
            for k in sorted(vars(cls)):
                v = vars(cls)[k]
                if isinstance(v, type):
                    if getattr(v, "__module__", "") == modname:
                        walk_class(v, modname, visited)
                else:
                    add_callable(v, generated_ok=True)  # incl. dataclass-generated methods

        visited: set[int] = set()
        for name in sorted(sys.modules):
            if name != "chartparse" and not name.startswith("chartparse."):
                continue
            mod = sys.modules[name]
            for k in sorted(vars(mod)):
                v = vars(mod)[k]
                if isinstance(v, type):
                    if getattr(v, "__module__", "") == name:
                        walk_class(v, name, visited)
                else:
                    add_callable(v, generated_ok=False)
        co = getattr(functools.cached_property.__get__, "__code__", None)
        if co is not None:
            add_code(co)
        return list(seen.values())

    def _install_monitoring(self) -> None:
        mon = sys.monitoring
        E = mon.events
        try:
            mon.use_tool_id(self.TOOL_ID, "detsim")
        except ValueError:
            mon.free_tool_id(self.TOOL_ID)
            mon.use_tool_id(self.TOOL_ID, "detsim")
        self._codes = self._package_code_objects()
        for co in self._codes:
            mon.set_local_events(self.TOOL_ID, co, E.INSTRUCTION)
        yp = self.yield_point
        cur_client = simthreads.current_client

        def on_instruction(code: Any, offset: int) -> Any:
            c = cur_client()
            if c is None or c.suspended or c.finished or not c.started:
                return None
            c.suspended += 1  # never re-enter from code run by the scheduler itself
            try:
                yp(c, (code, offset))
            finally:
                c.suspended -= 1
            return None

        mon.register_callback(self.TOOL_ID, E.INSTRUCTION, on_instruction)
        self._mon_installed = True

    def _uninstall_monitoring(self) -> None:
        if self._mon_installed:
            mon = sys.monitoring
            for co in self._codes:
                mon.set_local_events(self.TOOL_ID, co, 0)
            mon.register_callback(self.TOOL_ID, mon.events.INSTRUCTION, None)
            mon.free_tool_id(self.TOOL_ID)
            self._mon_installed = False

    # ------------------------------------------------------------------ running
    def run(self, bodies: list[Callable[[Client], None]]) -> None:
        assert len(bodies) == len(self.clients)

        def runner(client: Client, body: Callable[[Client], None]) -> None:
            simthreads.register_current(client)
            client.sem.acquire()
            client.started = True
            try:
                client.suspended = 1  # only operations are pre-emptible (begin_op arms them)
                body(client)
            except BaseException as e:  # noqa: BLE001 - harness error inside a client
                client.error = e
            finally:
                sys.settrace(None)
                client.suspended = 1
                simthreads.unregister_current()
                self.finish(client)

        if self.preempt_lines and self.granularity == "opcode":
            self._install_monitoring()
        simthreads.install()
        simthreads.ACTIVE = self

        for c, body in zip(list(self.clients), bodies):
            c.trace_fn = self.make_trace(c)
            t = threading.Thread(target=runner, args=(c, body), name=f"sim-client-{c.idx}",
                                 daemon=True)
            t.sim_client = c  # type: ignore[attr-defined]
            c.thread = t
            t.start()
        # first decision
        self.global_step += 1
        first = self._pick_after_finish()
        assert first is not None
        self.decisions.append([self.global_step, "start", -1, first.idx, "-"])
        self.events.update(f"{self.global_step}:start>{first.idx};".encode())
        self.interleaving.update(f"start>{first.idx};".encode())
        self.current = first
        first.sem.release()
        finished = self.done.acquire(timeout=self.hang_timeout_s)
        simthreads.ACTIVE = None
        self._uninstall_monitoring()
        if not finished:
            raise HarnessError("HARNESS-HANG: simulated clients did not finish")
        if self.deadlock is not None:
            from . import world
            from .runner import Discard

            if world.sink_lock_among(self.deadlock_locks):
                # scenario, not library: the application's log handler uses the library from inside
                # emit() (holding the handler's lock) while the library's OWN threads try to log
                # through the same handler - that program deadlocks on any correct thread-pooled
                # library; the run is discarded and counted, never judged
                raise Discard("a log handler that re-enters the library deadlocks with threads the "
                              "library runs itself")
            raise SimDeadlock(self.deadlock)
        for c in self.clients:
            if c.error is not None:
                raise HarnessError(f"client {c.idx} harness failure: {c.error!r}") from c.error

    # ------------------------------------------------------------------ operation protocol
    def begin_op(self, client: Client, op_index: int, abort: dict[str, Any] | None = None) -> None:
        """Op boundary (a yield point), then arm the op: step counter, optional abort fault."""
        client.in_op = False
        self.yield_point(client, None, boundary=True)
        client.op_index = op_index
        client.op_step = 0
        client.log = []
        client.abort_fired_at = None
        client.abort_hits = 0
        if abort is not None:
            client.abort_at = int(abort["at"])
            client.abort_in = abort.get("in")
            cl = abort.get("cold_lines")
            client.abort_cold = frozenset((a, int(b)) for a, b in cl) if cl is not None else None
            client.abort_exc = make_abort_exc(abort["exc"])
        else:
            client.abort_at = None
            client.abort_in = None
            client.abort_cold = None
            client.abort_exc = None
        self.interleaving.update(f"b{client.idx}.{op_index};".encode())
        client.in_op = True
        self.install_trace(client)  # CPython drops the trace function when it raised

    def end_op(self, client: Client) -> None:
        client.in_op = False
        client.abort_at = None
        if self.granularity == "opcode":
            client.suspended = 1
        elif self.preempt_lines:
            sys.settrace(None)
        self.interleaving.update(f"e{client.idx}.{client.op_index};".encode())

    class _Atomic:
        def __init__(self, sched: "Scheduler", client: Client) -> None:
            self.sched = sched
            self.client = client

        def __enter__(self) -> None:
            # the section belongs to the THREAD that runs it: a caller-supplied object (log
            # handler) may be called on a thread the library started itself
            self.client = current_client() or self.client
            self.client.atomic_depth += 1
            if self.sched.granularity == "opcode":
                self.client.suspended += 1
            else:
                sys.settrace(None)

        def __exit__(self, *a: Any) -> None:
            self.client.atomic_depth -= 1
            if self.sched.granularity == "opcode":
                self.client.suspended -= 1
            elif self.client.in_op and not self.client.untraced:
                self.sched.install_trace(self.client)

    def atomic(self, client: Client) -> "Scheduler._Atomic":
        """Observer sections: run untraced, hence without pre-emption."""
        return Scheduler._Atomic(self, client)

    # ------------------------------------------------------------------ results
    def explicit_schedule(self) -> dict[str, Any]:
        """The decisions actually taken, as an explicit (replayable, minimisable) tape."""
        return {"mode": "explicit", "granularity": self.granularity, "widen": self.widen,
                "trace_primaries": self.preempt_lines,
                "switches": [[d[0], d[3]] for d in self.decisions if d[1] in ("sw", "fin", "start", "blk", "tmo")],
                "where": [d[4] for d in self.decisions if d[1] in ("sw", "fin", "start", "blk", "tmo")]}


_WIDE: frozenset[Any] | None = None


def _wide_code_objects() -> frozenset[Any]:
    """Code objects of lock-free stdlib Python functions that C-level operations on the package's
    objects call back into."""
    global _WIDE
    if _WIDE is None:
        import _collections_abc
        import enum
        import functools
        import types

        fns = [enum.Enum.__hash__, types.DynamicClassAttribute.__get__,
               functools.cached_property.__get__,
               _collections_abc.Sequence.__iter__, _collections_abc.Sequence.__contains__,
               _collections_abc.Sequence.__reversed__, _collections_abc.Sequence.index,
               _collections_abc.Sequence.count]
        _WIDE = frozenset(f.__code__ for f in fns if hasattr(f, "__code__"))
    return _WIDE


def run_as_one_simulated_caller(fn: Callable[[], Any], seed: int, pkg_dir: str,
                                 preempt_lines: bool = True) -> tuple[Any, "Scheduler"]:
    """Run ``fn()`` (a sequence of library calls written for the main thread) as the single caller
    thread of a simulation: threads the library starts are adopted and interleaved with it under
    a seeded geometric schedule.  Returns (fn's result, scheduler); exceptions of fn propagate;
    a deadlock raises SimDeadlock."""
    # history-only mode: the caller itself is not traced (it yields where it blocks and at the
    # boundaries it marks with ``caller_boundary()``); threads the library starts are traced and
    # pre-empted geometrically
    sched = Scheduler({"mode": "sequential", "seed": seed & 0xFFFFFFFF, "p_boundary": 0.5},
                      1, pkg_dir, preempt_lines=preempt_lines)
    box: dict[str, Any] = {}

    def body(client: Client) -> None:
        sched.begin_op(client, 0)
        try:
            box["ok"] = fn()
        except HarnessError:
            raise
        except BaseException as e:  # noqa: BLE001
            box["exc"] = e
        sched.end_op(client)

    sched.run([body])
    if "exc" in box:
        raise box["exc"]
    return box.get("ok"), sched


def as_one_caller(prop: str, fn: Callable[[], dict[str, Any]], seed: int, pkg_dir: str,
                  preempt_lines: bool = True) -> dict[str, Any]:
    """``fn`` is a check's whole main-thread workload (a plain sequence of library calls).  On a
    tree whose library makes threads of its own it is run as ONE simulated caller; a deadlock is
    the verdict ``<prop>/deadlock/call-never-returns``."""
    try:
        res, sched = run_as_one_simulated_caller(fn, seed, pkg_dir, preempt_lines=preempt_lines)
    except SimDeadlock as e:
        return {"violations": [{"sig": f"{prop}/deadlock/call-never-returns",
                                "detail": f"{e} (under this schedule of the library's own threads a call "
                                          "into the library never returns)"}],
                "digest": hashlib.sha256(("deadlock:" + str(e)).encode()).hexdigest()[:32],
                "evals": 1, "nontrivial": []}
    res["knobs"] = {**(res.get("knobs") or {}), "whole_run_as_one_simulated_caller": 1}
    res.setdefault("sim_steps", sched.global_step)
    res.setdefault("switches", sched.switches)
    res["probes"] = {**(res.get("probes") or {}), **sched.probes}
    return res


def caller_boundary() -> None:
    """Between two library calls of a simulated caller: a point where a thread the library runs
    in the background may be scheduled (no-op outside a simulation)."""
    sched = simthreads.ACTIVE
    if sched is not None:
        cur = simthreads.baton_holder()
        if cur is not None and not cur.adopted:
            sched.yield_point(cur, None, boundary=True)


def deadlock_result(prop: str, e: BaseException, sched: "Scheduler") -> dict[str, Any]:
    """Verdict of a run that deadlocked among threads / locks the library made itself.  Returned
    at once: the parked threads still hold the library's locks, so nothing in this process may
    call into the library again."""
    sig = f"{prop}/deadlock/call-never-returns"
    sched.record("violations", [sig])
    return {"violations": [{"sig": sig, "detail": f"{e} (the same calls complete in a fresh process: "
                                                   "under this schedule a call into the library never returns)"}],
            "digest": sched.events.hexdigest()[:32], "evals": 1, "nontrivial": [],
            "interleaving": sched.interleaving.hexdigest()[:32], "sim_steps": sched.global_step,
            "switches": sched.switches, "mid_op_switches": sched.mid_op_switches,
            "sched_mode": sched.mode, "probes": dict(sched.probes),
            "explicit_schedule": sched.explicit_schedule()}


def make_abort_exc(kind: str) -> BaseException:
    if kind == "SimAbort":
        return SimAbort("injected abort")
    if kind == "MemoryError":
        return MemoryError("injected allocation failure")
    if kind == "KeyboardInterrupt":
        return KeyboardInterrupt()
    if kind in ("InterruptedError", "TimeoutError", "BlockingIOError", "ConnectionResetError"):
        import builtins

        return getattr(builtins, kind)(4, "injected I/O fault")
    if kind in ("OSError", "RuntimeError", "KeyError", "ValueError", "TypeError"):
        import builtins

        return getattr(builtins, kind)("injected fault")
    raise HarnessError(f"unknown abort kind {kind}")


def current_client() -> Client | None:
    return simthreads.current_client()
