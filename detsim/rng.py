"""One integer decides everything.

run seed  s_i = H(VERIF_SEED, property, i)      (SHA-256, first 8 bytes)
sub-streams   = random.Random(H(s_i, purpose))  so a new draw in one purpose never shifts another
"""

from __future__ import annotations

import hashlib
import random


def h64(*parts: object) -> int:
    m = hashlib.sha256()
    for p in parts:
        m.update(repr(p).encode("utf-8"))
        m.update(b"\x00")
    return int.from_bytes(m.digest()[:8], "big")


def run_seed(verif_seed: int, prop: str, index: int) -> int:
    return h64("run", int(verif_seed), prop, int(index))


def stream(seed: int, purpose: str) -> random.Random:
    return random.Random(h64("stream", int(seed), purpose))


def digest(obj: object) -> str:
    """Canonical digest of a JSON-able value."""
    import json

    return hashlib.sha256(
        json.dumps(obj, sort_keys=True, ensure_ascii=True, separators=(",", ":")).encode("ascii")
    ).hexdigest()[:32]
