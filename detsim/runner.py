"""Batch driver: seeds -> plans -> isolated simulated runs -> verdict, replay file, evidence.

Process structure (replay exactness depends on it):

  launcher (PYTHONHASHSEED pinned, imports chartparse from the working tree, never calls it)
    └─ W workers (forked; pristine: they only fork and aggregate)
         └─ one *run child* per seed (forked from the pristine worker): derives the plan from
            the seed, forks grandchildren for reference computations where the check needs them,
            executes the simulation, reports over a pipe, ``os._exit``.

A ``--replay`` process is the same run child started from a fresh interpreter, so both start
from "chartparse imported, never called".
"""

from __future__ import annotations

import importlib
import json
import multiprocessing as mp
import os
import pickle
import select
import signal
import subprocess
import sys
import time
import traceback
from typing import Any

from . import env, known, rng
from .evidence import write_evidence

RUN_TIMEOUT_S = float(os.environ.get("VERIF_RUN_TIMEOUT_S", "180"))
MAX_DISTINCT_PER_WORKER = 1_500_000
MAX_SAMPLES = 6


# --------------------------------------------------------------------------------------------
# isolated execution of one callable in a forked child
# --------------------------------------------------------------------------------------------

def in_fork(fn: Any, *args: Any, timeout: float = RUN_TIMEOUT_S) -> Any:
    """Run fn(*args) in a forked child, return its (picklable) result.

    Raises ChildFailure when the child dies, hangs or cannot report."""
    r, w = os.pipe()
    pid = os.fork()
    if pid == 0:
        code = 0
        try:
            os.close(r)
            try:
                import faulthandler
                import gc

                # a child that hangs leaves the stacks of all its threads behind (read by the
                # parent when it gives up on the child)
                # (a signal handler, not faulthandler's watchdog thread: that one does not survive
                # the forks a run child makes itself)
                _hang = open(os.path.join(env.scratch(), f"hang-{os.getpid()}.txt"), "w")
                faulthandler.register(signal.SIGUSR2, file=_hang, all_threads=True, chain=False)
                # same collector state in every child, whatever the forking worker did before:
                # when cyclic garbage is collected (weak-reference callbacks, __del__) must be a
                # function of the run, not of the worker's history
                gc.collect()
            except Exception:  # noqa: BLE001
                pass
            try:
                out = ("ok", fn(*args))
            except BaseException:  # noqa: BLE001
                out = ("err", traceback.format_exc())
            data = pickle.dumps(out, protocol=pickle.HIGHEST_PROTOCOL)
            with os.fdopen(w, "wb") as f:
                f.write(data)
        except BaseException:  # noqa: BLE001
            code = 70
        finally:
            os._exit(code)
    os.close(w)
    chunks = []
    deadline = time.monotonic() + timeout
    hung = False
    try:
        while True:
            left = deadline - time.monotonic()
            if left <= 0:
                hung = True
                break
            ready, _, _ = select.select([r], [], [], min(left, 5.0))
            if not ready:
                continue
            b = os.read(r, 1 << 20)
            if not b:
                break
            chunks.append(b)
    finally:
        os.close(r)
    if hung:
        try:
            os.kill(pid, signal.SIGUSR2)  # the child writes the stacks of all its threads
            time.sleep(0.5)
            os.kill(pid, signal.SIGKILL)
        except ProcessLookupError:
            pass
        os.waitpid(pid, 0)
        stacks = ""
        try:
            with open(os.path.join(env.scratch(), f"hang-{pid}.txt")) as fh:
                stacks = fh.read()[-6000:]
            os.unlink(os.path.join(env.scratch(), f"hang-{pid}.txt"))
        except OSError:
            pass
        raise ChildFailure(f"HARNESS-HANG: run child exceeded {timeout:.0f}s wall clock\n{stacks}")
    _, status = os.waitpid(pid, 0)
    try:
        os.unlink(os.path.join(env.scratch(), f"hang-{pid}.txt"))
    except OSError:
        pass
    if not chunks:
        raise ChildFailure(f"run child died without reporting (status {status})")
    kind, val = pickle.loads(b"".join(chunks))
    if kind == "err":
        raise ChildFailure("run child raised:\n" + val)
    return val


class ChildFailure(Exception):
    pass


# --------------------------------------------------------------------------------------------
# one run
# --------------------------------------------------------------------------------------------

class Discard(Exception):
    """The generated workload is not valid on this tree (e.g. the well-formed base chart does not
    parse): the run is discarded and counted, never judged."""


def _execute(mod: Any, plan: dict[str, Any]) -> dict[str, Any]:
    if plan.get("_debug_logging") and mod.PROP != "C20":
        # process state set by the application before it uses the library: debug logging on
        from . import world

        world.enable_debug_logging()
    if plan.get("_warnings_error") and mod.PROP != "C20":
        # process state set by the application (or its test runner): warnings are errors
        import warnings

        warnings.simplefilter("error")
    if plan.get("_decimal_context") and mod.PROP != "C20":
        # process state set by the application: its own decimal arithmetic runs at low precision
        # (money / display code).  The decimal context is per thread: threads started from now on
        # copy DefaultContext; the thread that loads charts keeps the default one in C11 (the
        # application changed the setting AFTER it had loaded the chart it now queries)
        import decimal

        decimal.getcontext()  # this thread's context exists (default precision) before the change
        decimal.DefaultContext.prec = 5
        decimal.DefaultContext.rounding = decimal.ROUND_DOWN
        if mod.PROP != "C11":
            decimal.setcontext(decimal.DefaultContext.copy())
    try:
        res = mod.execute(plan)
        if plan.get("_decimal_context"):
            res["knobs"] = {**(res.get("knobs") or {}), "low_precision_decimal_context": 1}
        if plan.get("_warnings_error"):
            res["knobs"] = {**(res.get("knobs") or {}), "warnings_as_errors": 1}
        if plan.get("_debug_logging"):
            res.setdefault("knobs", {})
            res["knobs"] = {**(res.get("knobs") or {}), "debug_logging_enabled": 1}
        return res
    except Discard as d:
        return {"violations": [], "digest": "discarded:" + str(d), "evals": 0,
                "discarded": {"run:" + str(d): 1}, "discarded_run": True}


def _run_seed(mod: Any, seed: int, tier: str, index: int) -> dict[str, Any]:
    plan = mod.make_plan(seed, tier, index)
    if index % 7 == 3:
        plan["_debug_logging"] = True
    if index % 11 == 5:
        plan["_warnings_error"] = True
    if index % 13 == 7:
        plan["_decimal_context"] = True
    res = _execute(mod, plan)
    res["plan_digest"] = rng.digest(plan)
    if res.get("violations"):
        res["plan"] = plan
    return res


def _perturb_heap(pad: int) -> Any:
    """Heap perturbation for replays of violations that depend on object addresses (an id()-keyed
    memo in the code under test): allocate a pad-determined pattern of small containers and free
    part of it, which shifts which freed address the next allocation of a given size receives.
    ``pad == 0`` does nothing.  The pattern is a pure function of ``pad``."""
    if not pad:
        return None
    import random

    r = random.Random(pad)
    keep: list[Any] = []
    for _ in range(10 + pad * 3 % 50):
        k = r.randrange(4)
        if k == 0:
            keep.append([None] * r.randint(0, 12))
        elif k == 1:
            keep.append({i: None for i in range(r.randint(0, 6))})
        elif k == 2:
            keep.append(tuple(range(r.randint(0, 9))))
        else:
            keep.append([[] for _ in range(r.randint(1, 5))])
    for i in sorted(r.sample(range(len(keep)), len(keep) // 2), reverse=True):
        del keep[i]
    return keep


def _run_plan(mod: Any, plan: dict[str, Any], pad: int = 0) -> dict[str, Any]:
    _keep = _perturb_heap(pad)
    res = _execute(mod, plan)
    res["plan_digest"] = rng.digest(plan)
    del _keep
    return res


# --------------------------------------------------------------------------------------------
# aggregation
# --------------------------------------------------------------------------------------------

class Agg:
    def __init__(self) -> None:
        self.runs = 0
        self.evals = 0
        self.sums: dict[str, dict[str, int]] = {
            "counters": {}, "faults_fired": {}, "faults_configured": {}, "probes": {},
            "discarded": {}, "sub_batches": {}, "schedule_modes": {}, "knobs": {},
        }
        self.nontrivial: set[int] = set()
        self.nontrivial_dropped = 0
        self.interleavings: set[int] = set()
        self.loc_pairs: set[str] = set()
        self.sim_steps = 0
        self.ops = 0
        self.switches = 0
        self.mid_op_switches = 0
        self.samples: list[Any] = []
        self.violations: list[dict[str, Any]] = []  # unlisted
        self.known_hits: dict[str, int] = {}
        self.known_examples: dict[str, str] = {}
        self.harness_errors: list[str] = []
        self.first_index: int | None = None
        self.last_index: int | None = None
        self.digests: dict[int, str] = {}
        self.fresh_refs = 0
        self.discarded_runs = 0

    def add_run(self, index: int, res: dict[str, Any], known_list: list[known.Known],
                keep_digests: bool) -> bool:
        """Returns True when the run carries an unlisted violation."""
        self.runs += 1
        self.evals += int(res.get("evals", 1))
        if res.get("discarded_run"):
            self.discarded_runs += 1
        self.first_index = index if self.first_index is None else min(self.first_index, index)
        self.last_index = index if self.last_index is None else max(self.last_index, index)
        for key in self.sums:
            for k, v in (res.get(key) or {}).items():
                self.sums[key][k] = self.sums[key].get(k, 0) + int(v)
        sb = res.get("sub_batch")
        if sb:
            self.sums["sub_batches"][sb] = self.sums["sub_batches"].get(sb, 0) + 1
        sm = res.get("sched_mode")
        if sm:
            self.sums["schedule_modes"][sm] = self.sums["schedule_modes"].get(sm, 0) + 1
        for d in res.get("nontrivial") or []:
            if len(self.nontrivial) < MAX_DISTINCT_PER_WORKER:
                self.nontrivial.add(int(d[:16], 16))
            else:
                self.nontrivial_dropped += 1
        il = res.get("interleaving")
        if il:
            self.interleavings.add(int(il[:16], 16))
        for lp in res.get("loc_pairs") or []:
            if len(self.loc_pairs) < 200_000:
                self.loc_pairs.add(lp)
        self.sim_steps += int(res.get("sim_steps", 0))
        self.ops += int(res.get("ops", 0))
        self.switches += int(res.get("switches", 0))
        self.mid_op_switches += int(res.get("mid_op_switches", 0))
        self.fresh_refs += int(res.get("fresh_refs", 0))
        if res.get("sample") is not None and len(self.samples) < MAX_SAMPLES:
            self.samples.append(res["sample"])
        if keep_digests:
            self.digests[index] = res.get("digest", "")
        if res.get("harness_error"):
            self.harness_errors.append(f"run {index}: {res['harness_error']}")
        unlisted = False
        for v in res.get("violations") or []:
            k = known.match(known_list, v["sig"])
            if k is not None:
                self.known_hits[k.key] = self.known_hits.get(k.key, 0) + 1
                self.known_examples.setdefault(k.key, v.get("detail", ""))
            else:
                unlisted = True
                if len(self.violations) < 8:
                    self.violations.append({"index": index, "sig": v["sig"],
                                            "detail": v.get("detail", ""),
                                            "plan": res.get("plan"), "digest": res.get("digest"),
                                            "explicit_schedule": res.get("explicit_schedule")})
        return unlisted

    def merge(self, o: "Agg") -> None:
        self.runs += o.runs
        self.evals += o.evals
        for key in self.sums:
            for k, v in o.sums[key].items():
                self.sums[key][k] = self.sums[key].get(k, 0) + v
        self.nontrivial |= o.nontrivial
        self.nontrivial_dropped += o.nontrivial_dropped
        self.interleavings |= o.interleavings
        self.loc_pairs |= o.loc_pairs
        self.sim_steps += o.sim_steps
        self.ops += o.ops
        self.switches += o.switches
        self.mid_op_switches += o.mid_op_switches
        self.fresh_refs += o.fresh_refs
        self.discarded_runs += o.discarded_runs
        self.samples = (self.samples + o.samples)[:MAX_SAMPLES]
        self.violations += o.violations
        for k, v in o.known_hits.items():
            self.known_hits[k] = self.known_hits.get(k, 0) + v
        for k, v in o.known_examples.items():
            self.known_examples.setdefault(k, v)
        self.harness_errors += o.harness_errors
        for a in ("first_index", "last_index"):
            mine, theirs = getattr(self, a), getattr(o, a)
            if theirs is not None:
                pick = min if a == "first_index" else max
                setattr(self, a, theirs if mine is None else pick(mine, theirs))
        self.digests.update(o.digests)


# --------------------------------------------------------------------------------------------
# worker
# --------------------------------------------------------------------------------------------

# Interpreter-configuration slices: run indices with i % 10 == residue are executed by a
# sub-launcher started in another interpreter configuration.  What the library returns for given
# bytes must not depend on any of them.
SLICES: dict[str, dict[str, Any]] = {
    "opt": {"residue": 9, "flags": ["-O"], "env": {},
            "what": "python -O (asserts compiled away)"},
    "oo": {"residue": 2, "flags": ["-OO"], "env": {},
           "what": "python -OO (asserts and docstrings compiled away)"},
    "clocale": {"residue": 4, "flags": [],
                "env": {"LC_ALL": "C", "LANG": "C", "PYTHONUTF8": "0", "PYTHONCOERCECLOCALE": "0",
                        "PYTHONIOENCODING": "utf-8"},
                "what": "C locale without UTF-8 mode (locale encoding ASCII)"},
}
SLICE_MOD = 10


def slice_of(i: int) -> str:
    for name, sl in SLICES.items():
        if i % SLICE_MOD == sl["residue"]:
            return name
    return "normal"


STOP_AFTER_CANDIDATES = 4
GRACE_AFTER_FIRST_S = 12.0


def _worker(mod: Any, tier: str, verif_seed: int, n_runs: int, deadline: float, counter: Any,
            stop: Any, first_t: Any, known_list: list[known.Known], keep_digests: bool,
            out_fd: int, slice_: str = "all") -> None:
    agg = Agg()
    try:
        while True:
            # after the first violating run the batch goes on for a short while: a violation that
            # depends on state outside the plan (object addresses) may not replay, and a second
            # or third candidate then decides between "violation" and "could not be confirmed"
            if stop.value >= STOP_AFTER_CANDIDATES:
                break
            if first_t.value and time.monotonic() >= first_t.value + GRACE_AFTER_FIRST_S:
                break
            if time.monotonic() >= deadline:
                break
            with counter.get_lock():
                i = counter.value
                if i >= n_runs:
                    break
                counter.value = i + 1
            if slice_ != "all" and slice_of(i) != slice_:
                continue  # another launcher (other interpreter configuration) runs this index
            seed = rng.run_seed(verif_seed, mod.PROP, i)
            try:
                res = in_fork(_run_seed, mod, seed, tier, i)
            except ChildFailure as e:
                agg.runs += 1
                agg.harness_errors.append(f"run {i} seed {seed}: {e}")
                continue
            res.setdefault("seed", seed)
            if agg.add_run(i, res, known_list, keep_digests):
                with stop.get_lock():
                    stop.value += 1
                    if not first_t.value:
                        first_t.value = time.monotonic()
    except BaseException:  # noqa: BLE001
        agg.harness_errors.append("worker failure:\n" + traceback.format_exc())
    finally:
        try:
            with os.fdopen(out_fd, "wb") as f:
                pickle.dump(agg, f, protocol=pickle.HIGHEST_PROTOCOL)
        finally:
            os._exit(0)


def run_batch(mod: Any, tier: str, verif_seed: int, n_runs: int, budget_s: float, workers: int,
              keep_digests: bool = False, slice_: str = "all") -> Agg:
    known_list = known.load(mod.PROP)
    ctx = mp.get_context("fork")
    counter = ctx.Value("q", 0)
    stop = ctx.Value("i", 0)
    first_t = ctx.Value("d", 0.0)
    deadline = time.monotonic() + budget_s
    procs = []
    for _ in range(max(1, min(workers, n_runs))):
        r, w = os.pipe()
        pid = os.fork()
        if pid == 0:
            os.close(r)
            _worker(mod, tier, verif_seed, n_runs, deadline, counter, stop, first_t, known_list,
                    keep_digests, w, slice_)
            os._exit(0)
        os.close(w)
        procs.append((pid, r))
    total = Agg()
    for pid, r in procs:
        with os.fdopen(r, "rb") as f:
            data = f.read()
        os.waitpid(pid, 0)
        if not data:
            total.harness_errors.append(f"worker {pid} died without reporting")
            continue
        total.merge(pickle.loads(data))
    return total


# --------------------------------------------------------------------------------------------
# minimisation and replay
# --------------------------------------------------------------------------------------------

def _sig_class(sig: str) -> str:
    return sig


def _reproduces(mod: Any, plan: dict[str, Any], sig: str | None,
                pad: int = 0) -> tuple[bool, dict[str, Any] | None]:
    """sig None = any violation counts (replay of address-dependent violations, whose symptom
    varies with which operation hits the stale state)."""
    try:
        res = in_fork(_run_plan, mod, plan, pad, timeout=min(RUN_TIMEOUT_S, 90))
    except ChildFailure:
        return False, None
    if res.get("harness_error"):
        return False, res
    return any(sig is None or v["sig"] == sig for v in res.get("violations") or []), res


def minimise(mod: Any, plan: dict[str, Any], sig: str, budget_s: float = 40.0,
             width: int = 16) -> dict[str, Any]:
    shrink = getattr(mod, "shrink", None)
    if shrink is None:
        return plan
    t_end = time.monotonic() + budget_s
    cur = plan
    progress = True
    while progress and time.monotonic() < t_end:
        progress = False
        batch: list[dict[str, Any]] = []
        gen_ = shrink(cur)
        while time.monotonic() < t_end:
            batch = []
            for cand in gen_:
                batch.append(cand)
                if len(batch) >= width:
                    break
            if not batch:
                break
            results = _parallel_try(mod, batch, sig)
            hit = next((c for c, ok in zip(batch, results) if ok), None)
            if hit is not None:
                cur = hit
                progress = True
                break
    return cur


def _parallel_try(mod: Any, cands: list[dict[str, Any]], sig: str,
                  pads: list[int] | None = None) -> list[bool]:
    """Evaluate candidates concurrently (each in its own forked child); order is preserved so
    the choice of the first success does not depend on timing."""
    pipes = []
    for ci, cand in enumerate(cands):
        r, w = os.pipe()
        pid = os.fork()
        if pid == 0:
            os.close(r)
            ok = False
            try:
                ok, _ = _reproduces(mod, cand, sig, pads[ci] if pads else 0)
            except BaseException:  # noqa: BLE001
                ok = False
            os.write(w, b"1" if ok else b"0")
            os._exit(0)
        os.close(w)
        pipes.append((pid, r))
    out = []
    for pid, r in pipes:
        b = os.read(r, 1)
        os.close(r)
        os.waitpid(pid, 0)
        out.append(b == b"1")
    return out


def write_replay(mod: Any, seed: int, vio: dict[str, Any], minimal: dict[str, Any],
                 minimal_digest: str | None) -> str:
    d = os.path.join(env.VERIF_ROOT, "replays")
    os.makedirs(d, exist_ok=True)
    path = os.path.join(d, f"{mod.PROP}-{seed}-{vio['index']}.json")
    with open(path, "w", encoding="utf-8") as f:
        json.dump({
            "property": mod.PROP,
            "verif_seed": seed,
            "run_index": vio["index"],
            "expect": {"sig": vio["sig"], "digest": minimal_digest},
            "detail": vio.get("detail", ""),
            "plan": minimal,
            "original_plan": vio["plan"],
            "original_digest": vio.get("digest"),
            "interpreter_optimize": int(sys.flags.optimize),
            "interpreter_slice": os.environ.get("VERIF_SLICE_NAME") or "normal",
        }, f, indent=1, sort_keys=True)
    return path


MAX_PADS = 96


def replay(mod: Any, path: str, which: str = "plan", record_pad: bool = False) -> int:
    with open(path, encoding="utf-8") as f:
        rp = json.load(f)
    plan = rp[which]
    sig = rp["expect"]["sig"]
    want_digest = rp["expect"]["digest"] if which == "plan" else rp.get("original_digest")
    pad0 = int(((rp.get("replay_env") or {}).get(which) or {}).get("pad") or 0)
    print(f"REPLAY {which} heap-pad={pad0} aslr={'off' if os.environ.get('VERIF_ASLR_OFF') == '1' else 'on'}")
    try:
        res = in_fork(_run_plan, mod, plan, pad0)
    except ChildFailure as e:
        print(f"HARNESS-ERROR replay failed to run: {e}")
        return 2
    if res.get("harness_error"):
        print(f"HARNESS-ERROR in replay: {res['harness_error']}")
        return 2
    sigs = [v["sig"] for v in res.get("violations") or []]
    pad_used = pad0
    if not sigs:
        # A violation that depends on object addresses (e.g. an id()-keyed memo in the code under
        # test) needs the allocator to hand out a particular freed address again, which no plan
        # controls.  Search a fixed list of heap perturbations; with address-space randomisation
        # off each of them is an exactly repeatable execution.
        pads = [p for p in range(0, MAX_PADS + 1) if p != pad0]
        for i in range(0, len(pads), 16):
            chunk = pads[i:i + 16]
            oks = _parallel_try(mod, [plan] * len(chunk), None, chunk)
            hit = next((p for p, ok in zip(chunk, oks) if ok), None)
            if hit is not None:
                pad_used = hit
                res = in_fork(_run_plan, mod, plan, hit)
                sigs = [v["sig"] for v in res.get("violations") or []]
                print(f"REPLAY note: reproduced only under heap perturbation pad={hit}: the code "
                      "under test depends on state outside the plan (object addresses / allocator)")
                break
    for v in res.get("violations") or []:
        print(f"  replayed violation: {v['sig']} :: {v.get('detail', '')[:400]}")
    print(f"REPLAY digest={res.get('digest')} expected={want_digest}")
    if sig in sigs:
        if want_digest and res.get("digest") != want_digest:
            print("REPLAY note: same violation signature, but the event-log digest differs from "
                  "the recorded one: the code under test depends on something outside the plan "
                  "(e.g. object addresses / allocator state)")
        if record_pad and pad_used != pad0:
            rp.setdefault("replay_env", {})[which] = {
                "pad": pad_used, "aslr": "off" if os.environ.get("VERIF_ASLR_OFF") == "1" else "on"}
            with open(path, "w", encoding="utf-8") as f:
                json.dump(rp, f, indent=1, sort_keys=True)
        print(f"REPLAY reproduced sig={sig}")
        print(f"VIOLATION property={mod.PROP} replay={path}")
        return 1
    if sigs:
        print(f"REPLAY reproduced a violation of {mod.PROP} with another signature than the recorded "
              f"{sig}: {sigs} (which operation is hit varies with state outside the plan)")
        print(f"VIOLATION property={mod.PROP} replay={path}")
        return 1
    print(f"REPLAY did not reproduce sig={sig}; got {sigs}")
    return 0


def _confirm_in_fresh_process(prop: str, path: str, which: str) -> int:
    cmd = [env.PYTHON, os.path.join(env.VERIF_ROOT, "bin", "check"), prop, "--replay", path,
           "--which", which, "--record-pad"]
    envv = {k: v for k, v in os.environ.items() if k != "VERIF_ASLR_OFF"}
    p = subprocess.run(cmd, capture_output=True, text=True, timeout=900,
                       env={**envv, "VERIF_REPO": env.REPO})
    return p.returncode


# --------------------------------------------------------------------------------------------
# entry point
# --------------------------------------------------------------------------------------------

def main(argv: list[str]) -> int:
    import argparse

    ap = argparse.ArgumentParser(prog="check")
    ap.add_argument("prop")
    ap.add_argument("--tier", default=os.environ.get("VERIF_TIER") or "quick",
                    choices=["quick", "thorough"])
    ap.add_argument("--replay")
    ap.add_argument("--which", default="plan", choices=["plan", "original_plan"])
    ap.add_argument("--record-pad", action="store_true",
                    help="(internal) store the heap perturbation that reproduced in the replay file")
    ap.add_argument("--runs", type=int, default=None)
    ap.add_argument("--budget", type=float, default=None)
    ap.add_argument("--workers", type=int, default=None)
    ap.add_argument("--digests-out", default=None,
                    help="write {run index: event-log digest} here (determinism self-test)")
    ap.add_argument("--no-evidence", action="store_true")
    ap.add_argument("--slice", default="auto", choices=["auto", "all", "normal"] + sorted(SLICES),
                    help="(internal) which run indices this launcher executes; 'auto' = the normal "
                         "slice here and the -O slice in a sub-launcher started with python -O")
    ap.add_argument("--agg-out", default=None, help="(internal) pickle the aggregate here")
    a = ap.parse_args(argv)

    replay_opt = None
    if a.replay:
        try:
            with open(a.replay, encoding="utf-8") as f:
                rpj = json.load(f)
            replay_opt = int(rpj.get("interpreter_optimize", 0))
            sl = SLICES.get(rpj.get("interpreter_slice") or "")
            if sl and os.environ.get("VERIF_SLICE_NAME") != rpj.get("interpreter_slice"):
                # the replay runs in the interpreter configuration the run was made in
                os.environ.update(sl["env"])
                os.environ["VERIF_SLICE_NAME"] = rpj["interpreter_slice"]
                os.environ.pop("PYTHONHASHSEED", None)  # force the re-exec below
        except (OSError, ValueError):
            replay_opt = None
    env.reexec_with_fixed_hashseed(no_aslr=bool(a.replay), optimize=replay_opt)
    t0 = time.monotonic()
    prop = a.prop.upper()
    mod = importlib.import_module(f"checks.{prop.lower()}")
    verif_seed = int(os.environ.get("VERIF_SEED") or 0)
    print(f"VERIF_SEED={verif_seed} property={prop} tier={a.tier} repo={env.REPO}")
    from . import simthreads

    try:
        # locks the package makes while it is imported are cooperative ones (simthreads): a
        # simulated thread that is pre-empted while it holds one cannot deadlock the baton
        simthreads.install()
        try:
            env.import_chartparse()
        finally:
            simthreads.uninstall()
    except BaseException:  # noqa: BLE001
        if getattr(mod, "IMPORT_FAILURE_IS_HARNESS_ERROR", True):
            print("HARNESS-ERROR cannot import chartparse from the working tree:")
            traceback.print_exc()
            return 2
    sys.stdout.flush()
    import gc

    gc.collect()
    gc.freeze()  # the pristine image is never collected again: per-child collections stay cheap

    if a.replay:
        rc = replay(mod, a.replay, a.which, record_pad=a.record_pad)
        env.cleanup_now()
        return rc

    n_runs = a.runs or int(os.environ.get("VERIF_RUNS") or 0) or (
        mod.runs(a.tier) if hasattr(mod, "runs") else mod.RUNS[a.tier])
    if os.environ.get("VERIF_SCALE") and not (a.runs or os.environ.get("VERIF_RUNS")):
        n_runs = max(16, int(n_runs * float(os.environ["VERIF_SCALE"])))  # self-tests only
    budget = a.budget or float(os.environ.get("VERIF_BUDGET_S") or 0) or mod.BUDGET_S[a.tier]
    workers = a.workers or int(os.environ.get("VERIF_WORKERS") or 0) or min(16, os.cpu_count() or 1)
    if hasattr(mod, "prepare"):
        mod.prepare(a.tier, verif_seed)
    slice_ = a.slice
    subs: list[tuple[str, Any, str]] = []
    if slice_ == "auto":
        if os.environ.get("VERIF_NO_SLICES") == "1" or sys.flags.optimize:
            slice_ = "all"
        else:
            slice_ = "normal"
            for name, sl in SLICES.items():
                agg_path = os.path.join(env.scratch(), f"slice-{name}-agg.pickle")
                cmd = [env.PYTHON] + sl["flags"] + [
                    os.path.join(env.VERIF_ROOT, "bin", "check"), prop, "--tier", a.tier,
                    "--slice", name, "--agg-out", agg_path, "--no-evidence",
                    "--runs", str(n_runs), "--budget", str(budget), "--workers", str(max(2, workers // 4))]
                if a.digests_out:
                    cmd += ["--digests-out", a.digests_out + "." + name]
                envv = {k: v for k, v in os.environ.items() if k != "PYTHONHASHSEED"}
                envv.update(sl["env"])
                envv.update({"VERIF_REPO": env.REPO, "VERIF_SLICE_NAME": name})
                subs.append((name, subprocess.Popen(cmd, stdout=subprocess.PIPE, stderr=subprocess.STDOUT,
                                                    env=envv), agg_path))
    agg = run_batch(mod, a.tier, verif_seed, n_runs, budget, workers,
                    keep_digests=bool(a.digests_out), slice_=slice_)
    sub_rc = 0
    sub_violations = 0
    for name, sub, agg_path in subs:
        what = SLICES[name]["what"]
        try:
            sub_out_b, _ = sub.communicate(timeout=budget + 1200)
        except subprocess.TimeoutExpired:
            sub.kill()
            sub_out_b, _ = sub.communicate()
            agg.harness_errors.append(f"the sub-launcher for slice '{name}' did not finish")
        sub_out = (sub_out_b or b"").decode("utf-8", "replace")
        rc1 = sub.returncode
        lines = [ln for ln in sub_out.splitlines()
                 if ln.startswith(("VIOLATION", "KNOWN-FINDING", "violation candidate", "HARNESS",
                                   "replay confirmed"))]
        try:
            with open(agg_path, "rb") as f:
                sub_agg = pickle.load(f)
            sub_violations += len(sub_agg.violations)
            sub_agg.violations = []  # judged (minimised, replayed, reported) by the sub-launcher itself
            n_sub = sub_agg.runs
            agg.merge(sub_agg)
            agg.sums["knobs"][f"runs_under:{what}"] = n_sub
        except Exception as e:  # noqa: BLE001
            if rc1 in (0, 1):
                agg.harness_errors.append(f"the sub-launcher for slice '{name}' left no aggregate: {e!r}")
        for ln in lines:
            print(ln if ln.startswith(("VIOLATION", "KNOWN-FINDING")) else f"[slice {name}: {what}] " + ln)
        if rc1 not in (0, 1) and not any(ln.startswith("HARNESS") for ln in lines):
            agg.harness_errors.append(f"the sub-launcher for slice '{name}' exited {rc1}: {sub_out[-400:]}")
        if rc1 == 1:
            sub_rc = 1
        elif rc1 in (2, 3) and sub_rc == 0:
            sub_rc = rc1
    wall_batch = time.monotonic() - t0
    if a.digests_out:
        with open(a.digests_out, "w", encoding="utf-8") as f:
            json.dump({str(k): v for k, v in sorted(agg.digests.items())}, f)
        for name in SLICES:
            try:
                os.unlink(a.digests_out + "." + name)
            except OSError:
                pass
    if a.agg_out:
        with open(a.agg_out, "wb") as f:
            keep = agg.violations
            pickle.dump(agg, f, protocol=pickle.HIGHEST_PROTOCOL)
            agg.violations = keep

    rc = 0
    replay_path = None
    for key, n in sorted(agg.known_hits.items()):
        print(f"KNOWN-FINDING: property={prop} {key} ({n} runs) {agg.known_examples.get(key, '')[:300]}")
    if agg.violations:
        cands = []
        for v in sorted(agg.violations, key=lambda v: v["index"]):
            if all(c["index"] != v["index"] for c in cands):  # one candidate per violating RUN
                cands.append(v)
        cands = cands[:STOP_AFTER_CANDIDATES]
        unconfirmed = []
        for vio in cands:
            print(f"violation candidate at run {vio['index']}: {vio['sig']} :: {vio['detail'][:600]}")
            sys.stdout.flush()
            plan0 = vio["plan"]
            if vio.get("explicit_schedule") and isinstance(plan0.get("schedule"), dict):
                cand = {**plan0, "schedule": vio["explicit_schedule"]}
                ok0, _ = _reproduces(mod, cand, vio["sig"])
                if ok0:
                    plan0 = cand
            minimal = minimise(mod, plan0, vio["sig"],
                               budget_s=float(os.environ.get("VERIF_MINIMISE_S") or 40))
            ok, res = _reproduces(mod, minimal, vio["sig"])
            if not ok:
                minimal, res = vio["plan"], None
                ok, res = _reproduces(mod, minimal, vio["sig"])
            replay_path = write_replay(mod, verif_seed, vio, minimal, (res or {}).get("digest"))
            which = "plan"
            c = _confirm_in_fresh_process(prop, replay_path, "plan")
            if c not in (1,):
                which = "original_plan"
                c = _confirm_in_fresh_process(prop, replay_path, "original_plan")
            if c == 1:
                if which == "original_plan":
                    # the replay file's "plan" is what --replay executes: make it the confirmed one
                    with open(replay_path, encoding="utf-8") as f:
                        rp = json.load(f)
                    rp["minimised_plan_not_confirmed"] = rp["plan"]
                    rp["plan"] = rp["original_plan"]
                    rp["expect"]["digest"] = rp.get("original_digest")
                    renv = rp.setdefault("replay_env", {})
                    renv["plan"] = renv.get("original_plan") or {}
                    with open(replay_path, "w", encoding="utf-8") as f:
                        json.dump(rp, f, indent=1, sort_keys=True)
                print(f"replay confirmed in a fresh process ({which})")
                print(f"VIOLATION property={prop} replay={replay_path}")
                rc = 1
                break
            try:
                os.replace(replay_path, replay_path[:-5] + ".unconfirmed.json")
                replay_path = replay_path[:-5] + ".unconfirmed.json"
            except OSError:
                pass
            unconfirmed.append((vio, replay_path, c))
            replay_path = None
        if rc != 1:
            for vio, rpath, c in unconfirmed:
                print(f"HARNESS-NONDETERMINISM: violation {vio['sig']} of run {vio['index']} did not "
                      f"reproduce from its replay file {rpath} (fresh-process exit {c}); "
                      "not reported as a violation")
            rc = 3
    if sub_rc == 1:
        rc = 1
    elif sub_rc in (2, 3) and rc == 0:
        rc = sub_rc
    if agg.harness_errors and rc == 0:
        for e in agg.harness_errors[:10]:
            print("HARNESS-ERROR " + e)
        rc = 2
    if agg.runs == 0 and rc == 0 and slice_ not in SLICES:
        print("HARNESS-ERROR no run completed")
        rc = 2
    if rc == 0 and agg.discarded_runs * 2 > agg.runs:
        print(f"HARNESS-ERROR {agg.discarded_runs} of {agg.runs} runs were discarded because the "
              f"generated workload is not valid on this tree ({dict(agg.sums['discarded'])}); the "
              "check cannot judge the property here (this is not a violation report)")
        rc = 2
    wall = time.monotonic() - t0
    if not a.no_evidence:
        write_evidence(mod, a.tier, verif_seed, agg, wall, wall_batch, n_runs, budget, workers,
                       n_violations=len(agg.violations) + sub_violations, replay_path=replay_path)
    print(f"{prop} {a.tier}: runs={agg.runs}/{n_runs} evaluations={agg.evals} "
          f"distinct_nontrivial={len(agg.nontrivial)} known_hits={sum(agg.known_hits.values())} "
          f"violations={len(agg.violations) + sub_violations} harness_errors={len(agg.harness_errors)} "
          f"wall={wall:.1f}s exit={rc}")
    env.cleanup_now()
    return rc
