"""Canonical observation of a parsed chart through its public surface only.

The result is a JSON-able value; its digest is the unit of comparison.  Nothing here depends on
memory addresses, hash values or dict order of hashed keys (key order of the instrument map is
reported explicitly as a list, and can be left out for order-insensitive comparisons).
"""

from __future__ import annotations

import re
from datetime import timedelta
from typing import Any

from . import gen
from .rng import digest

_ADDR = re.compile(r"0x[0-9a-fA-F]+")
_US = timedelta(microseconds=1)


def us(td: Any) -> Any:
    if td is None:
        return None
    if isinstance(td, timedelta):
        return td // _US
    return f"<{type(td).__name__}>"


def scrub(s: str) -> str:
    return _ADDR.sub("0x?", s)


def exc_token(e: BaseException) -> list[str]:
    t = type(e)
    return [f"{t.__module__}.{t.__qualname__}", scrub(str(e))]


def _ename(x: Any) -> Any:
    return getattr(x, "name", None) if x is not None else None


def _base(ev: Any) -> list[Any]:
    return [ev.tick, us(ev.timestamp)]


def _sustain(s: Any) -> Any:
    if isinstance(s, tuple):
        return list(s)
    return s


def observe_note(ev: Any) -> list[Any]:
    spd = ev.star_power_data
    return _base(ev) + [
        us(ev.end_timestamp),
        _ename(ev.note),
        list(ev.note.value),
        _sustain(ev.sustain),
        _ename(ev.hopo_state),
        None if spd is None else spd.star_power_event_index,
        ev.longest_sustain,
        ev.end_tick,
        scrub(str(ev)),
        scrub(repr(ev)),
    ]


def observe_track(tr: Any) -> dict[str, Any]:
    return {
        "instrument": _ename(tr.instrument),
        "difficulty": _ename(tr.difficulty),
        "header_tag": tr.header_tag,
        "notes": [observe_note(e) for e in tr.note_events],
        "sp": [_base(e) + [e.sustain, e.end_tick, scrub(str(e)), scrub(repr(e))]
               for e in tr.star_power_events],
        "ev": [_base(e) + [e.value, scrub(str(e)), scrub(repr(e))] for e in tr.track_events],
        "last_end": us(tr.last_note_end_timestamp),
        "str": scrub(str(tr)),
        "repr": scrub(repr(tr)),
    }


def observe_sync(st: Any) -> dict[str, Any]:
    be = st.bpm_events
    return {
        "resolution": be.resolution,
        "bpm": [_base(e) + [repr(e.bpm), scrub(str(e)), scrub(repr(e))] for e in be],
        "bpm_len": len(be),
        "ts": [_base(e) + [e.upper_numeral, e.lower_numeral, scrub(str(e)), scrub(repr(e))]
               for e in st.time_signature_events],
        "anchors": [_base(e) + [scrub(str(e)), scrub(repr(e))] for e in st.anchor_events],
        "repr": scrub(repr(st)),
    }


def observe_globals(g: Any) -> dict[str, Any]:
    def lst(evs: Any) -> list[Any]:
        return [_base(e) + [e.value, scrub(str(e)), scrub(repr(e))] for e in evs]

    return {
        "text": lst(g.text_events),
        "section": lst(g.section_events),
        "lyric": lst(g.lyric_events),
        "repr": scrub(repr(g)),
    }


def observe_meta(m: Any) -> dict[str, Any]:
    out = {}
    for snake in gen.META_SNAKE:
        try:
            v = getattr(m, snake)
        except AttributeError:
            out[snake] = "<missing>"
            continue
        out[snake] = _ename(v) if hasattr(v, "name") and not isinstance(v, (str, int)) else v
    out["repr"] = scrub(repr(m))
    return out


def observe_chart(chart: Any, *, ordered: bool = True) -> dict[str, Any]:
    """Full public observation.  ``ordered=False`` leaves out what legitimately depends on the
    order of sections in the file (key order of the instrument map, chart-level str/repr)."""
    keys = []
    tracks: dict[str, Any] = {}
    for inst, dd in chart.instrument_tracks.items():
        keys.append([_ename(inst), [_ename(d) for d in dd]])
        for diff, tr in dd.items():
            tracks[f"{_ename(inst)}/{_ename(diff)}"] = observe_track(tr)
    obs: dict[str, Any] = {
        "meta": observe_meta(chart.metadata),
        "sync": observe_sync(chart.sync_track),
        "globals": observe_globals(chart.global_events_track),
        "tracks": tracks,
    }
    obs["shape"] = shape(chart) if ordered else None
    if ordered:
        obs["keys"] = keys
        obs["str"] = scrub(str(chart))
        obs["repr"] = scrub(repr(chart))
    else:
        obs["keys_sorted"] = sorted([k, sorted(v)] for k, v in keys if v)
    return obs


def hashes(chart: Any) -> list[Any]:
    """hash() of every event (``"unhashable"`` where hashing raises TypeError).  Only ever compared
    between objects of ONE process: equal events must hash equally."""
    out: list[Any] = []
    for _k, e in all_events(chart):
        try:
            out.append(hash(e))
        except TypeError:
            out.append("unhashable")
    return out


def _tname(x: Any) -> str:
    t = type(x)
    return f"{t.__module__}.{t.__qualname__}"


def shape(chart: Any) -> list[Any]:
    """Classes of the chart's containers and events (state can hide in the class of an object)."""
    out: list[Any] = [_tname(chart), _tname(chart.instrument_tracks), _tname(chart.metadata),
                      _tname(chart.sync_track), _tname(chart.sync_track.bpm_events),
                      _tname(chart.sync_track.bpm_events.events),
                      _tname(chart.sync_track.time_signature_events),
                      _tname(chart.sync_track.anchor_events), _tname(chart.global_events_track),
                      _tname(chart.global_events_track.text_events),
                      _tname(chart.global_events_track.section_events),
                      _tname(chart.global_events_track.lyric_events)]
    for _inst, dd in chart.instrument_tracks.items():
        out.append(_tname(dd))
        for _d, tr in dd.items():
            out += [_tname(tr), _tname(tr.note_events), _tname(tr.star_power_events),
                    _tname(tr.track_events)]
            for e in tr.note_events:
                out.append([_tname(e), _tname(e.note), _tname(e.hopo_state), _tname(e.sustain),
                            _tname(e.star_power_data), _tname(e.timestamp), _tname(e.tick)])
    out.append(sorted({_tname(e) for _k, e in all_events(chart)}))
    return out


def chart_digest(chart: Any, *, ordered: bool = True) -> str:
    return digest(observe_chart(chart, ordered=ordered))


def outcome(fn: Any, *, ordered: bool = True, keep: bool = False) -> dict[str, Any]:
    """Run ``fn`` (a parse) and reduce what happened to a comparable outcome."""
    try:
        chart = fn()
    except Exception as e:  # noqa: BLE001 - every exception type is an observable outcome
        return {"kind": "exc", "exc": exc_token(e)}
    obs = observe_chart(chart, ordered=ordered)
    out = {"kind": "ok", "digest": digest(obs)}
    if keep:
        out["obs"] = obs
        out["chart"] = chart
    return out


def all_events(chart: Any) -> list[tuple[str, Any]]:
    """(kind, event) for every event object reachable through the public surface."""
    out: list[tuple[str, Any]] = []
    st = chart.sync_track
    out += [("bpm", e) for e in st.bpm_events]
    out += [("ts", e) for e in st.time_signature_events]
    out += [("anchor", e) for e in st.anchor_events]
    g = chart.global_events_track
    out += [("text", e) for e in g.text_events]
    out += [("section", e) for e in g.section_events]
    out += [("lyric", e) for e in g.lyric_events]
    for _inst, dd in chart.instrument_tracks.items():
        for _d, tr in dd.items():
            out += [("note", e) for e in tr.note_events]
            out += [("sp", e) for e in tr.star_power_events]
            out += [("trackev", e) for e in tr.track_events]
    return out
