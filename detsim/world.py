"""Glue between the harness and the real chartparse package (imported lazily: the generator and
planner never touch it)."""

from __future__ import annotations

import io
import logging
import threading
from typing import Any

_sink_installed = False
_lock_free_records: list[list[str]] = []  # records emitted outside any simulated client


_tls = threading.local()
UNFORMATTABLE = "<unformattable "


class shadow:
    """Calls made inside run with the log sink in shadow mode: what they log is discarded, so
    monitor re-executions never disturb warning counts."""

    def __enter__(self) -> None:
        _tls.shadow = getattr(_tls, "shadow", 0) + 1

    def __exit__(self, *a: Any) -> None:
        _tls.shadow -= 1


def current_log() -> list[list[str]]:
    c = getattr(threading.current_thread(), "sim_client", None)
    return c.log if c is not None else _lock_free_records


class _Sink(logging.Handler):
    def emit(self, record: logging.LogRecord) -> None:
        if getattr(_tls, "shadow", 0):
            return
        try:
            msg = record.getMessage()
        except Exception as e:  # noqa: BLE001
            msg = f"{UNFORMATTABLE}{e!r}>"
        rec = [record.name, record.levelname, msg]
        c = getattr(threading.current_thread(), "sim_client", None)
        if c is not None:
            c.log.append(rec)
        else:
            _lock_free_records.append(rec)


def install_log_sink() -> None:
    """Capture everything that is logged in this (simulator) process, whatever the logger is
    called, and keep it away from the stderr handler that ``logging.basicConfig()`` in chart.py
    installs on the root logger."""
    global _sink_installed
    if _sink_installed:
        return
    root = logging.getLogger()
    for h in list(root.handlers):
        root.removeHandler(h)
    root.addHandler(_Sink())
    if root.level > logging.WARNING or root.level == logging.NOTSET:
        root.setLevel(logging.WARNING)
    lg = logging.getLogger("chartparse")
    lg.propagate = True
    _sink_installed = True


def drain_log() -> list[list[str]]:
    out = list(_lock_free_records)
    _lock_free_records.clear()
    return out


def enums() -> tuple[Any, Any]:
    from chartparse.instrument import Difficulty, Instrument

    return Instrument, Difficulty


def pair(inst_name: str, diff_name: str) -> tuple[Any, Any]:
    Instrument, Difficulty = enums()
    return (Instrument[inst_name], Difficulty[diff_name])


def selection(sel: Any) -> Any:
    """Plan selection -> want_tracks argument.  None | {"form": "list"|"tuple", "pairs": [...]}"""
    if sel is None:
        return None
    pairs = [pair(i, d) for i, d in sel["pairs"]]
    return tuple(pairs) if sel.get("form") == "tuple" else pairs


def with_selection(sel: Any, fn: Any) -> Any:
    """Call fn(want_tracks object) and remember whether the callee mutated the caller's
    selection object (a caller may reuse it for the next parse)."""
    obj = selection(sel)
    snap = list(obj) if obj is not None else None
    _tls.sel_mutated = False
    try:
        return fn(obj)
    finally:
        _tls.sel_mutated = obj is not None and list(obj) != snap


def selection_was_mutated() -> bool:
    return bool(getattr(_tls, "sel_mutated", False))


def parse_text(text: str, sel: Any = None, newline: Any = "\n") -> Any:
    from chartparse.chart import Chart

    fp = io.StringIO(text, newline=newline)
    if sel is None:
        _tls.sel_mutated = False
        return Chart.from_file(fp)
    return with_selection(sel, lambda w: Chart.from_file(fp, want_tracks=w))


DOCUMENTED_ERRORS = ("ValueError", "RegexNotMatchError", "MissingRequiredField")


def is_documented_error(e: BaseException) -> bool:
    from chartparse.exceptions import MissingRequiredField, RegexNotMatchError

    return isinstance(e, (ValueError, RegexNotMatchError, MissingRequiredField))
