"""Glue between the harness and the real chartparse package (imported lazily: the generator and
planner never touch it)."""

from __future__ import annotations

import io
import logging
import threading
from typing import Any

def _sim_client() -> Any:
    from . import simthreads

    return simthreads.current_client()


_sink_installed = False
_lock_free_records: list[list[str]] = []  # records emitted outside any simulated client


_tls = threading.local()
UNFORMATTABLE = "<unformattable "


class shadow:
    """Calls made inside run with the log sink in shadow mode: what they log is discarded, so
    monitor re-executions never disturb warning counts."""

    def __enter__(self) -> None:
        _tls.shadow = getattr(_tls, "shadow", 0) + 1

    def __exit__(self, *a: Any) -> None:
        _tls.shadow -= 1


class reentrant_handler:
    """While active, the FIRST record that reaches the sink from the current (non-client) thread
    makes the sink call ``fn`` before it returns - the application's handler using the library
    from inside ``logger.warning``.  ``fn`` None = inactive."""

    def __init__(self, fn: Any) -> None:
        self.fn = fn

    def __enter__(self) -> None:
        _tls.reenter = self.fn

    def __exit__(self, *a: Any) -> None:
        _tls.reenter = None


def current_log() -> list[list[str]]:
    c = _sim_client()
    return c.log if c is not None else _lock_free_records  # the calling THREAD's own records


def reference_process_state() -> None:
    """Called first in every reference computation (forked from a run that may have changed
    process state on purpose): default logging levels, default warning filters."""
    import warnings

    install_log_sink()
    logging.disable(logging.NOTSET)
    logging.getLogger().setLevel(logging.WARNING)
    logging.getLogger("chartparse").setLevel(logging.NOTSET)
    warnings.resetwarnings()
    import decimal

    decimal.DefaultContext.prec = 28
    decimal.DefaultContext.rounding = decimal.ROUND_HALF_EVEN
    decimal.setcontext(decimal.DefaultContext.copy())


def enable_debug_logging() -> None:
    """The application has switched debug logging on for everything (root level DEBUG).  The sink
    keeps recording reports only (WARNING and above), so this changes what the library's own
    ``isEnabledFor`` / ``getEffectiveLevel`` calls answer and nothing else."""
    install_log_sink()
    logging.getLogger().setLevel(logging.DEBUG)
    logging.getLogger("chartparse").setLevel(logging.DEBUG)


class _Sink(logging.Handler):
    def createLock(self) -> None:
        # a cooperative lock (simthreads): the application's handler may use the library from
        # inside emit(), and with a library that runs threads of its own another simulated
        # thread can meet this lock while its holder waits for them
        from . import simthreads

        was = simthreads._installed
        simthreads.install()
        try:
            self.lock = threading._RLock()  # type: ignore[attr-defined]
        finally:
            if not was:
                simthreads.uninstall()

    def emit(self, record: logging.LogRecord) -> None:
        if getattr(_tls, "shadow", 0):
            return
        if record.levelno < logging.WARNING:
            return  # debug / info chatter is not a report
        try:
            msg = record.getMessage()
        except Exception as e:  # noqa: BLE001
            msg = f"{UNFORMATTABLE}{e!r}>"
        rec = [record.name, record.levelname, msg]
        c = _sim_client()
        if c is not None:
            if c.root is not c:
                # a thread the library started: the record is kept per thread (per-call accounting
                # of the dispatcher monitor) and handed to the caller on whose behalf it works
                c.log.append(rec)
                c = c.root
            c.log.append(rec)
            lf = getattr(c, "log_fault", None)
            if lf is not None and not lf["fired"]:
                lf["seen"] += 1
                if lf["seen"] >= lf["at"]:
                    # fault: the application's log handler fails while handling this record
                    lf["fired"] = True
                    if lf.get("reenter") is not None:
                        # not a failure: the application's handler itself uses the library
                        # (a nested parse on the same thread) before it returns
                        saved = c.log
                        c.log = []
                        try:
                            lf["reenter"]()
                        finally:
                            c.log = saved
                        return
                    raise lf["exc"]
        else:
            _lock_free_records.append(rec)
            fn = getattr(_tls, "reenter", None)
            if fn is not None:
                _tls.reenter = None
                fn()


def sink_lock_among(locks: list[Any]) -> bool:
    """Is the lock of the harness's own log handler one of ``locks`` (cooperative locks that the
    threads of a deadlocked run wait for)?"""
    for h in logging.getLogger().handlers:
        if isinstance(h, _Sink):
            blk = getattr(h.lock, "_block", None)
            if any(x is blk or x is h.lock for x in locks):
                return True
    return False


def install_log_sink() -> None:
    """Capture everything that is logged in this (simulator) process, whatever the logger is
    called, and keep it away from the stderr handler that ``logging.basicConfig()`` in chart.py
    installs on the root logger."""
    global _sink_installed
    if _sink_installed:
        return
    root = logging.getLogger()
    for h in list(root.handlers):
        root.removeHandler(h)
    root.addHandler(_Sink())
    if root.level > logging.WARNING or root.level == logging.NOTSET:
        root.setLevel(logging.WARNING)
    lg = logging.getLogger("chartparse")
    lg.propagate = True
    _sink_installed = True


def drain_log() -> list[list[str]]:
    out = list(_lock_free_records)
    _lock_free_records.clear()
    return out


def enums() -> tuple[Any, Any]:
    from chartparse.instrument import Difficulty, Instrument

    return Instrument, Difficulty


def pair(inst_name: str, diff_name: str) -> tuple[Any, Any]:
    Instrument, Difficulty = enums()
    return (Instrument[inst_name], Difficulty[diff_name])


def selection(sel: Any) -> Any:
    """Plan selection -> want_tracks argument.  None | {"form": "list"|"tuple", "pairs": [...]}"""
    if sel is None:
        return None
    pairs = [pair(i, d) for i, d in sel["pairs"]]
    return tuple(pairs) if sel.get("form") == "tuple" else pairs


class FaultySelection:
    """A caller-supplied selection (a legal ``Sequence``) whose k-th access of any kind raises
    the injected exception: a fault thrown by a caller-supplied object in the middle of a parse."""

    def __init__(self, items: list[Any], at: int, exc: BaseException) -> None:
        self._items = list(items)
        self._at = at
        self._exc = exc
        self.accesses = 0
        self.fired = False

    def _touch(self) -> None:
        self.accesses += 1
        if not self.fired and self.accesses >= self._at:
            self.fired = True
            raise self._exc

    def __contains__(self, x: Any) -> bool:
        self._touch()
        return x in self._items

    def __iter__(self) -> Any:
        self._touch()
        return iter(list(self._items))

    def __len__(self) -> int:
        self._touch()
        return len(self._items)

    def __getitem__(self, i: Any) -> Any:
        self._touch()
        return self._items[i]

    def __reversed__(self) -> Any:
        self._touch()
        return reversed(list(self._items))

    def index(self, x: Any, *a: Any) -> int:
        self._touch()
        return self._items.index(x, *a)

    def count(self, x: Any) -> int:
        self._touch()
        return self._items.count(x)


try:
    from collections.abc import Sequence as _Sequence

    _Sequence.register(FaultySelection)
except Exception:  # noqa: BLE001
    pass


def with_selection(sel: Any, fn: Any) -> Any:
    """Call fn(want_tracks object) and remember whether the callee mutated the caller's
    selection object (a caller may reuse it for the next parse)."""
    pool = getattr(_tls, "sel_pool", None)
    if pool is not None and sel is not None and not sel.get("fault"):
        # the caller keeps ONE selection object per distinct selection and reuses it for every
        # parse (as a program with a constant WANTED list does)
        import json as _json

        key = _json.dumps([sel.get("form"), sel["pairs"]])
        if key not in pool:
            pool[key] = selection(sel)
        obj = pool[key]
    else:
        obj = selection(sel)
    snap = list(obj) if obj is not None else None
    _tls.sel_mutated = False
    _tls.sel_fault_fired = False
    call_obj = obj
    fault = (sel or {}).get("fault") if isinstance(sel, dict) else None
    if fault is not None and obj is not None:
        call_obj = FaultySelection(list(obj), int(fault["at"]), fault["exc_obj"])
    try:
        return fn(call_obj)
    finally:
        if call_obj is not obj:
            _tls.sel_fault_fired = call_obj.fired
        _tls.sel_mutated = obj is not None and list(obj) != snap


def use_selection_pool(pool: dict[str, Any] | None) -> None:
    """Per-thread: selection objects are taken from (and kept in) ``pool`` from now on."""
    _tls.sel_pool = pool


def selection_fault_fired() -> bool:
    return bool(getattr(_tls, "sel_fault_fired", False))


def selection_was_mutated() -> bool:
    return bool(getattr(_tls, "sel_mutated", False))


def parse_text(text: str, sel: Any = None, newline: Any = "\n") -> Any:
    from chartparse.chart import Chart

    fp = io.StringIO(text, newline=newline)
    if sel is None:
        _tls.sel_mutated = False
        return Chart.from_file(fp)
    return with_selection(sel, lambda w: Chart.from_file(fp, want_tracks=w))


class _Filler:
    """Small instance with a __dict__ (the size class of most of the package's objects)."""

    def __init__(self, i: int) -> None:
        self.i = i


def heap_shift(j: int) -> list[Any]:
    """Deterministic perturbation of the allocator INSIDE a run: ``j`` live small objects of the
    usual size classes.  Which freed address the next allocation receives (hence whether an
    id()-keyed memo in the code under test sees a recycled address) shifts with ``j``; histories
    that free objects and build new ones try several ``j`` so that the outcome does not hinge on
    the heap state the run happened to inherit."""
    keep: list[Any] = []
    for i in range(j):
        keep.append(_Filler(i))
        keep.append((i, i, i))
        keep.append([i])
        keep.append({"k": i})
        keep.append(str(i) * 3)
    return keep


DOCUMENTED_ERRORS = ("ValueError", "RegexNotMatchError", "MissingRequiredField")


def is_documented_error(e: BaseException) -> bool:
    from chartparse.exceptions import MissingRequiredField, RegexNotMatchError

    return isinstance(e, (ValueError, RegexNotMatchError, MissingRequiredField))
