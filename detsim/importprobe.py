"""Runs in a genuinely fresh interpreter: perform one import history, then snapshot.

stdin : {"imports": [[module, form], ...], "rest": [module, ...], "smoke": <text>}
stdout: {"ok": bool, "failed": {...} | null, "names": {...}, "identity": [...], "noncanonical": [...],
         "smoke": <digest>}
This file must not import chartparse (or anything that does) before the history runs.
"""

from __future__ import annotations

import importlib
import io
import json
import re
import sys
import types

_ADDR = re.compile(r"0x[0-9a-fA-F]+")


def token(obj: object) -> str:
    if isinstance(obj, types.ModuleType):
        return "module:" + obj.__name__
    mod = getattr(obj, "__module__", None)
    qn = getattr(obj, "__qualname__", None) or getattr(obj, "__name__", None)
    if isinstance(mod, str) and isinstance(qn, str):
        return f"{type(obj).__name__}:{mod}.{qn}"
    if isinstance(obj, (set, frozenset)):  # repr order of hashed containers depends on the hash seed
        return f"{type(obj).__name__}=" + ",".join(sorted(_ADDR.sub("0x?", repr(x)) for x in obj))[:200]
    return f"{type(obj).__name__}={_ADDR.sub('0x?', repr(obj))[:200]}"


def do_import(module: str, form: str) -> str | None:
    """Executes one import statement; returns a complaint when the statement did not hand the
    caller the module it names (importing module X means getting module chartparse.X)."""
    full = "chartparse." + module
    ns: dict = {}
    if form == "importlib":
        got = importlib.import_module(full)
    elif form == "import":
        exec(f"import {full}", ns)
        got = getattr(ns["chartparse"], module, None)
    elif form == "from":
        exec(f"from {full} import *", ns)
        got = sys.modules.get(full)
        if got is not None:
            want = getattr(got, "__all__", None)
            if want is None:
                want = [k for k in vars(got) if not k.startswith("_")]
            missing = sorted(k for k in want if k not in ns or ns[k] is not getattr(got, k, None))
            if missing:
                return f"'from {full} import *' did not bind {missing[:5]} to the module's objects"
    elif form == "from_pkg":
        exec(f"from chartparse import {module}", ns)
        got = ns.get(module)
    else:
        raise ValueError(form)
    if not isinstance(got, types.ModuleType) or got.__name__ != full or got is not sys.modules.get(full):
        return (f"{form} form for {full} bound {token(got)} instead of the module {full} "
                f"(sys.modules has it: {full in sys.modules})")
    return None


class _Injected(KeyboardInterrupt):
    """The asynchronous exception injected into an import (Ctrl-C shaped)."""


def import_with_fault(module: str, form: str, at: int, pkg_prefix: str) -> dict:
    """Execute one import statement while a trace function counts line events in the package's
    own files (module bodies, class bodies) and raises at the ``at``-th one."""
    seen = [0]
    where = [None]
    fired = [False]

    def local(frame, event, arg):
        if event == "line" and not fired[0]:
            seen[0] += 1
            if seen[0] >= at:
                fired[0] = True
                where[0] = f"{frame.f_code.co_filename.rsplit('/', 1)[-1]}:{frame.f_lineno}"
                raise _Injected()
        return local

    def glob(frame, event, arg):
        return local if frame.f_code.co_filename.startswith(pkg_prefix) else None

    res: dict = {"fired": False, "lines_seen": 0, "where": None, "outcome": "ok", "misbound": None}
    sys.settrace(glob)
    try:
        res["misbound"] = do_import(module, form)
    except _Injected:
        res["outcome"] = "injected"
    except BaseException as e:  # noqa: BLE001 - a faulted import may fail in any way
        res["outcome"] = f"other:{type(e).__name__}"
    finally:
        sys.settrace(None)
    res["fired"] = fired[0]
    res["lines_seen"] = seen[0]
    res["where"] = where[0]
    # did the interpreter keep the package object itself?  (it discards it when the package's
    # own __init__ was still running; what follows then is the interpreter's doing)
    res["package_survived"] = "chartparse" in sys.modules
    return res


def main() -> None:
    req = json.load(sys.stdin)
    out: dict = {"ok": True, "failed": None, "misbound": []}
    step = 0
    fault = req.get("fault")
    if req.get("werror"):
        # only now (the probe's own imports are done): from here on every warning is an error,
        # as under ``python -W error`` / pytest's filterwarnings = error
        import warnings

        warnings.simplefilter("error")
    try:
        for module, form in req["imports"]:
            cur = [module, form, "history", step]
            if fault is not None and int(fault["step"]) == step:
                fr = import_with_fault(module, form, int(fault["at"]), req["pkg_prefix"])
                out["fault"] = fr
                if fr["fired"]:
                    # the caller retries the interrupted import
                    cur = [module, form, "retry-after-interrupt", step]
                    bad = do_import(module, form)
                else:
                    bad = fr["misbound"]
            else:
                bad = do_import(module, form)
            if bad:
                out["misbound"].append({"module": module, "form": form, "step": step, "what": bad})
            step += 1
        for module in req["rest"]:
            cur = [module, "importlib", "rest", step]
            bad = do_import(module, "importlib")
            if bad:
                out["misbound"].append({"module": module, "form": "importlib", "step": step, "what": bad})
            step += 1
    except BaseException as e:  # noqa: BLE001
        out["ok"] = False
        out["failed"] = {"module": cur[0], "form": cur[1], "phase": cur[2], "step": cur[3],
                         "type": type(e).__name__, "msg": _ADDR.sub("0x?", str(e))[:300]}
        json.dump(out, sys.stdout)
        return
    names: dict = {}
    by_name: dict = {}
    noncanonical = []
    mods = sorted(m for m in sys.modules if m == "chartparse" or m.startswith("chartparse."))
    for mn in mods:
        m = sys.modules[mn]
        pub = sorted(k for k in vars(m) if not k.startswith("_"))
        row = {}
        for k in pub:
            v = vars(m)[k]
            row[k] = token(v)
            by_name.setdefault(k, []).append((mn, id(v)))
            dm = getattr(v, "__module__", None)
            qn = getattr(v, "__qualname__", None)
            if isinstance(dm, str) and dm.startswith("chartparse") and isinstance(qn, str) \
                    and "<locals>" not in qn and dm in sys.modules:
                o = sys.modules[dm]
                try:
                    for part in qn.split("."):
                        o = getattr(o, part)
                    if o is not v and not isinstance(v, (int, str, float, tuple)):
                        noncanonical.append(f"{mn}.{k} is not {dm}.{qn}")
                except AttributeError:
                    # e.g. NewType / TypeVar whose __qualname__ is not an attribute path
                    pass
        names[mn] = row
    # one level deeper: public class-level attributes of every public class of the package
    # (a public name whose VALUE depends on the import order is bound to a different object)
    seen_cls: set = set()

    def class_rows(cls: type) -> None:
        if id(cls) in seen_cls or not str(getattr(cls, "__module__", "")).startswith("chartparse"):
            return
        seen_cls.add(id(cls))
        row = {}
        for k in sorted(vars(cls)):
            if k.startswith("_"):
                continue
            v = vars(cls)[k]
            v = getattr(v, "__func__", v)
            row[k] = token(v)
            if isinstance(v, type):
                class_rows(v)
        names[f"class:{cls.__module__}.{cls.__qualname__}"] = row

    for mn in mods:
        for k in sorted(vars(sys.modules[mn])):
            v = vars(sys.modules[mn])[k]
            if not k.startswith("_") and isinstance(v, type):
                class_rows(v)
    identity = []
    for k in sorted(by_name):
        groups: dict = {}
        for mn, i in by_name[k]:
            groups.setdefault(i, []).append(mn)
        if len(by_name[k]) > 1:
            identity.append([k, sorted(sorted(g) for g in groups.values())])
    out["names"] = names
    out["identity"] = identity
    out["noncanonical"] = sorted(noncanonical)
    out["modules"] = mods
    # smoke parse through the public entry point
    try:
        from chartparse.chart import Chart
        from detsim.observe import chart_digest

        import logging

        logging.getLogger("chartparse").setLevel(logging.CRITICAL)
        out["smoke"] = chart_digest(Chart.from_file(io.StringIO(req["smoke"])))
    except BaseException as e:  # noqa: BLE001
        out["smoke"] = f"exc:{type(e).__name__}:{str(e)[:200]}"
    json.dump(out, sys.stdout)


if __name__ == "__main__":
    if "--in-thread" in sys.argv:
        # the whole history (and the snapshot) runs in ONE worker thread that is started and
        # joined: no race, only "not the main thread"
        import threading

        t = threading.Thread(target=main, name="importer")
        t.start()
        t.join()
    else:
        main()
