"""Process environment of the simulator: where the code under test lives, scratch space,
and the one-time import of chartparse from the *current working tree*.

Nothing in here draws random numbers or reads a clock for a decision.
"""

from __future__ import annotations

import atexit
import os
import shutil
import sys

VERIF_ROOT = os.path.dirname(os.path.dirname(os.path.abspath(__file__)))
REPO = os.path.abspath(os.environ.get("VERIF_REPO", "/repo"))
PKG_DIR = os.path.join(REPO, "chartparse")
PYTHON = sys.executable or "/venv/bin/python"

_scratch: str | None = None
_scratch_owner_pid: int | None = None


def scratch() -> str:
    """Per-invocation scratch directory on tmpfs, removed by the process that made it."""
    global _scratch, _scratch_owner_pid
    if _scratch is None:
        base = "/dev/shm" if os.path.isdir("/dev/shm") and os.access("/dev/shm", os.W_OK) else None
        if base is None:
            base = os.path.join(VERIF_ROOT, "scratch")
            os.makedirs(base, exist_ok=True)
        _remove_stale(base)
        _scratch = os.path.join(base, f"verif-{os.getpid()}")
        os.makedirs(_scratch, exist_ok=True)
        _scratch_owner_pid = os.getpid()
        atexit.register(_cleanup)
    return _scratch


def _remove_stale(base: str) -> None:
    """Scratch directories of launchers that no longer exist (killed by a time limit)."""
    try:
        for name in os.listdir(base):
            if name.startswith("verif-") and name[6:].isdigit() and not os.path.exists(f"/proc/{name[6:]}"):
                shutil.rmtree(os.path.join(base, name), ignore_errors=True)
    except OSError:
        pass


def _cleanup() -> None:
    if _scratch and _scratch_owner_pid == os.getpid():
        shutil.rmtree(_scratch, ignore_errors=True)


def cleanup_now() -> None:
    _cleanup()


def _setarch_prefix() -> list[str]:
    """``setarch <machine> -R`` (address-space layout randomisation off) when it works here."""
    import subprocess

    exe = shutil.which("setarch")
    if not exe:
        return []
    pre = [exe, os.uname().machine, "-R"]
    try:
        if subprocess.run(pre + ["true"], capture_output=True, timeout=20).returncode == 0:
            return pre
    except Exception:  # noqa: BLE001
        pass
    return []


def reexec_with_fixed_hashseed(no_aslr: bool = False, optimize: int | None = None) -> None:
    """Re-execute the launcher with PYTHONHASHSEED=0 unless a value is already pinned.

    ``no_aslr`` (replay processes): additionally switch address-space layout randomisation off,
    so that a violation which depends on object addresses (an id()-keyed memo in the code under
    test) replays identically in every fresh process.

    The harness never iterates over hash-ordered containers for a decision, but pinning the
    value removes the interpreter's own hash randomisation from the picture; the determinism
    self-test runs the harness under other values on purpose (VERIF_KEEP_HASHSEED=1).
    """
    if os.environ.get("VERIF_KEEP_HASHSEED") == "1":
        return
    want_aslr_off = no_aslr and os.environ.get("VERIF_ASLR_OFF") is None
    # ``optimize``: the replay file says under which interpreter mode the run was made (-O slice)
    flip_opt = optimize is not None and int(sys.flags.optimize) != int(optimize)
    if os.environ.get("PYTHONHASHSEED") != "0" or want_aslr_off or flip_opt:
        env = dict(os.environ)
        env["PYTHONHASHSEED"] = "0"
        pre: list[str] = []
        if want_aslr_off:
            pre = _setarch_prefix()
            env["VERIF_ASLR_OFF"] = "1" if pre else "unavailable"
        want_opt = int(optimize) if optimize is not None else int(sys.flags.optimize)
        env.pop("PYTHONOPTIMIZE", None)
        argv = pre + [PYTHON] + (["-O"] * min(2, want_opt)) + sys.argv
        os.execve(argv[0], argv, env)


def import_chartparse() -> None:
    """Import the package from $VERIF_REPO, compiled from source (no stale .pyc can be read,
    nothing is written into the repository)."""
    sys.dont_write_bytecode = True
    sys.pycache_prefix = os.path.join(scratch(), "pyc-none")  # empty: never finds a cached file
    if sys.path[0] != REPO:
        sys.path.insert(0, REPO)
    import chartparse.chart  # noqa: F401  (cycle-safe entry point, the one the suite uses)
    import chartparse  # noqa: F401

    got = os.path.dirname(os.path.abspath(sys.modules["chartparse"].__file__ or ""))
    if got != PKG_DIR:
        raise RuntimeError(f"chartparse imported from {got}, expected {PKG_DIR}")


def import_chartparse_plain() -> None:
    """Import for fresh interpreters started with fresh_interpreter_env (PYTHONPATH already
    points at the tree; compiled files live in this invocation's scratch only)."""
    import chartparse.chart  # noqa: F401

    got = os.path.dirname(os.path.abspath(sys.modules["chartparse"].__file__ or ""))
    if got != PKG_DIR:
        raise RuntimeError(f"chartparse imported from {got}, expected {PKG_DIR}")


FLAVOURS: dict[str, dict[str, str]] = {
    # process environments a deployment may run under; none of them may change what a parse of
    # given bytes returns (the library passes its codec explicitly)
    "default": {},
    "c-locale-no-utf8-mode": {"LC_ALL": "C", "LANG": "C", "PYTHONUTF8": "0", "PYTHONCOERCECLOCALE": "0"},
    "posix-locale": {"LC_ALL": "POSIX", "PYTHONCOERCECLOCALE": "0"},
    "utf8-mode": {"PYTHONUTF8": "1", "LC_ALL": "C"},
    "dev-mode": {"PYTHONDEVMODE": "1"},
    "latin1-io": {"PYTHONIOENCODING": "latin-1", "LC_ALL": "C", "PYTHONUTF8": "0", "PYTHONCOERCECLOCALE": "0"},
    "other-tz": {"TZ": "Asia/Kolkata"},
    "python-O": {"_flags": "-O"},
    "python-OO": {"_flags": "-OO"},
}


def flavour_flags(flavour: str) -> list[str]:
    f = FLAVOURS.get(flavour, {}).get("_flags")
    return [f] if f else []


def fresh_interpreter_env(hashseed: int | str, flavour: str = "default") -> dict[str, str]:
    """Environment for a genuinely fresh interpreter that imports chartparse from the tree."""
    env = _fresh_interpreter_env(hashseed)
    env.update({k: v for k, v in FLAVOURS.get(flavour, {}).items() if not k.startswith("_")})
    return env


def _fresh_interpreter_env(hashseed: int | str) -> dict[str, str]:
    env = {
        "PATH": os.environ.get("PATH", "/usr/bin:/bin"),
        "PYTHONPATH": REPO + os.pathsep + VERIF_ROOT,
        "PYTHONHASHSEED": str(hashseed),
        # compiled files go to (and may be reused from) this invocation's scratch only
        "PYTHONPYCACHEPREFIX": os.path.join(scratch(), "pyc"),
        "VERIF_REPO": REPO,
        "LC_ALL": "C.UTF-8",
    }
    return env


def repo_head() -> dict[str, object]:
    import subprocess

    try:
        head = subprocess.run(
            ["git", "-C", REPO, "rev-parse", "HEAD"], capture_output=True, text=True, timeout=20
        ).stdout.strip()
        dirty = subprocess.run(
            ["git", "-C", REPO, "status", "--porcelain", "--", "chartparse"],
            capture_output=True,
            text=True,
            timeout=20,
        ).stdout.strip()
    except Exception:  # pragma: no cover - informational only
        return {"repo_head": None, "repo_dirty": None}
    return {"repo_head": head, "repo_dirty": bool(dirty)}


def package_uses_locks_or_threads() -> list[str]:
    """Names of chartparse source files that mention a blocking primitive the simulator does NOT
    own (§2.3 safety net).  ``threading`` locks / conditions / events / semaphores, ``queue`` and
    ``concurrent.futures`` thread pools are cooperative under the simulator (detsim.simthreads) and
    keep line-level pre-emption on; bare ``_thread`` locks, ``multiprocessing`` and ``asyncio`` are
    not: a thread pre-empted while it holds one of those would deadlock a baton scheduler."""
    import re

    pat = re.compile(r"(\ballocate_lock\s*\(|\bimport\s+(_thread|multiprocessing|asyncio)\b"
                     r"|\bfrom\s+(_thread|multiprocessing|asyncio)\b|ProcessPoolExecutor)")
    hits = []
    for name in sorted(os.listdir(PKG_DIR)):
        if name.endswith(".py"):
            with open(os.path.join(PKG_DIR, name), encoding="utf-8") as f:
                if pat.search(f.read()):
                    hits.append(name)
    return hits


def package_makes_threads() -> bool:
    """Does the package's source mention threads, pools, timers or queues of its own?  (On the
    unchanged tree: no.)  Checks whose workload is a plain sequence of library calls in the main
    thread run that whole sequence as ONE simulated caller when it does, so that the library's
    own threads are scheduled by the simulator there too."""
    import re

    pat = re.compile(r"(\bthreading\b|\bconcurrent\.futures\b|\bfrom\s+concurrent\b|\bimport\s+queue\b|\bfrom\s+queue\b|\bThread\s*\()")
    for name in sorted(os.listdir(PKG_DIR)):
        if name.endswith(".py"):
            with open(os.path.join(PKG_DIR, name), encoding="utf-8") as f:
                if pat.search(f.read()):
                    return True
    return False
