"""Helpers for plan-level delta debugging (used by the checks' ``shrink`` generators)."""

from __future__ import annotations

from typing import Any, Iterator


def without_chunks(items: list[Any], max_candidates: int = 64) -> Iterator[list[Any]]:
    """Candidates with a contiguous chunk removed: halves, quarters, ... single elements
    (ddmin-style complement sets), at most ``max_candidates`` of them."""
    n = len(items)
    emitted = 0
    size = n // 2
    while size >= 1 and emitted < max_candidates:
        for start in range(0, n, size):
            cand = items[:start] + items[start + size:]
            if len(cand) < n:
                yield cand
                emitted += 1
                if emitted >= max_candidates:
                    return
        if size == 1:
            break
        size //= 2


def shrink_schedule(plan: dict[str, Any]) -> Iterator[dict[str, Any]]:
    sch = plan.get("schedule") or {}
    if sch.get("mode") not in (None, "sequential"):
        yield {**plan, "schedule": {"mode": "sequential", "seed": 0, "p_boundary": 0.0}}
    if sch.get("mode") == "explicit":
        if sch.get("granularity") == "opcode":
            yield {**plan, "schedule": {**sch, "granularity": "line"}}
        sw = sch.get("switches") or []
        # keep the first entry (the start decision); drop chunks of the rest
        head, rest = sw[:1], sw[1:]
        for cand in without_chunks(rest, 48):
            yield {**plan, "schedule": {**sch, "switches": head + cand, "where": []}}
