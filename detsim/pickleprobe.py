"""A consumer of pickled charts in ANOTHER interpreter (own PYTHONHASHSEED).

stdin : JSON {"text": ..., "select": ..., "used": <base64 pickle>, "twin": <base64 pickle>}
stdout: JSON {"used": report, "twin": report}

report = what a program that loads the pickle and works with it next to a freshly parsed chart
observes: does it load, does it equal the fresh parse, its public observation, and - for every
pair of EQUAL events (loaded vs. fresh) - whether they hash alike and find each other in a set.
The harness only compares the two reports with each other.
"""

from __future__ import annotations

import base64
import json
import pickle
import sys


def report(blob: bytes, fresh, all_events, observe_chart, digest) -> dict:
    try:
        ch = pickle.loads(blob)
    except BaseException as e:  # noqa: BLE001
        return {"load": "raised " + type(e).__name__}
    out: dict = {"load": "ok"}
    try:
        out["eq_fresh"] = [bool(ch == fresh), bool(fresh == ch), bool(ch != fresh)]
    except BaseException as e:  # noqa: BLE001
        out["eq_fresh"] = "raised " + type(e).__name__
    try:
        out["observation"] = digest(observe_chart(ch))
    except BaseException as e:  # noqa: BLE001
        out["observation"] = "raised " + type(e).__name__
    bad_hash = bad_set = pairs = 0
    try:
        mine = [e for _k, e in all_events(ch)]
        theirs = [e for _k, e in all_events(fresh)]
        lookup = set()
        for e in theirs:
            try:
                lookup.add(e)
            except TypeError:
                pass
        for a, b in zip(mine, theirs):
            if a == b:
                pairs += 1
                try:
                    if hash(a) != hash(b):
                        bad_hash += 1
                    if a not in lookup:
                        bad_set += 1
                except TypeError:
                    pass
        out["equal_pairs"] = pairs
        out["equal_but_hash_differs"] = bad_hash
        out["equal_but_not_found_in_set"] = bad_set
    except BaseException as e:  # noqa: BLE001
        out["events"] = "raised " + type(e).__name__
    return out


def main() -> None:
    req = json.loads(sys.stdin.buffer.read().decode("utf-8"))
    from detsim import env, world
    from detsim.observe import all_events, observe_chart
    from detsim.rng import digest

    env.import_chartparse_plain()
    world.install_log_sink()
    fresh = world.parse_text(req["text"], req.get("select"))
    out = {k: report(base64.b64decode(req[k]), fresh, all_events, observe_chart, digest)
           for k in ("used", "twin")}
    sys.stdout.buffer.write(json.dumps(out, ensure_ascii=True, sort_keys=True).encode("ascii"))
    sys.stdout.buffer.flush()


if __name__ == "__main__":
    main()
