"""Workload generator: structured, well-formed charts whose ground truth the harness knows.

This module never imports chartparse.  Header names are the ones the file format defines
(``<Difficulty><Instrument>``) and are mapped to the *names* of the public enum members the
library documents for them; the table below is the harness' own.
"""

from __future__ import annotations

import copy
import random
from typing import Any

DIFFICULTIES = [("EASY", "Easy"), ("MEDIUM", "Medium"), ("HARD", "Hard"), ("EXPERT", "Expert")]
INSTRUMENTS = [
    ("GUITAR", "Single"),
    ("GUITAR_COOP", "DoubleGuitar"),
    ("BASS", "DoubleBass"),
    ("RHYTHM", "DoubleRhythm"),
    ("KEYS", "Keyboard"),
    ("DRUMS", "Drums"),
    ("GHL_GUITAR", "GHLGuitar"),
    ("GHL_BASS", "GHLBass"),
    ("GHL_COOP", "GHLCoop"),
    ("GHL_RHYTHM", "GHLRhythm"),
]
INSTRUMENT_NAMES = [n for n, _ in INSTRUMENTS]
DIFFICULTY_NAMES = [n for n, _ in DIFFICULTIES]
# header -> (instrument member name, difficulty member name)
HEADERS: dict[str, tuple[str, str]] = {
    dv + iv: (iname, dname) for iname, iv in INSTRUMENTS for dname, dv in DIFFICULTIES
}
ALL_HEADERS = sorted(HEADERS)
PAIR_TO_HEADER = {v: k for k, v in HEADERS.items()}
REQUIRED = ["Song", "SyncTrack", "Events"]

RESOLUTION_POOL = [1, 7, 96, 100, 192, 480, 1000]

META_FIELDS = [
    # (PascalCase, snake_case, kind)
    ("Resolution", "resolution", "int"),
    ("Offset", "offset", "int"),
    ("Player2", "player2", "p2"),
    ("Difficulty", "difficulty", "int"),
    ("PreviewStart", "preview_start", "int"),
    ("PreviewEnd", "preview_end", "int"),
    ("Genre", "genre", "str"),
    ("MediaType", "media_type", "str"),
    ("Name", "name", "str"),
    ("Artist", "artist", "str"),
    ("Charter", "charter", "str"),
    ("Album", "album", "str"),
    ("Year", "year", "str"),
    ("MusicStream", "music_stream", "str"),
    ("GuitarStream", "guitar_stream", "str"),
    ("RhythmStream", "rhythm_stream", "str"),
    ("BassStream", "bass_stream", "str"),
    ("DrumStream", "drum_stream", "str"),
    ("Drum2Stream", "drum2_stream", "str"),
    ("Drum3Stream", "drum3_stream", "str"),
    ("Drum4Stream", "drum4_stream", "str"),
    ("VocalStream", "vocal_stream", "str"),
    ("KeysStream", "keys_stream", "str"),
    ("CrowdStream", "crowd_stream", "str"),
]
META_SNAKE = [s for _, s, _ in META_FIELDS]

WORDS = ["alpha", "Solo 1", "verse", "Chorus 2a", "x", "la-", "oh", "née", "歌", "a b c", "intro_1"]
TRACK_EVENT_WORDS = ["solo", "soloend", "ow_face_on", "ow_face_off", "mix_0_drums0"]


def bpm_representable(raw: int) -> bool:
    """True iff the *current* decoder accepts this thousandth-BPM value.

    Values it rejects are the C08 defect (not claimed); generated charts avoid them so that no
    claimed check trips over a defect it does not own.  This is plain float arithmetic on the
    harness side (whole + thousandths/1000 must survive a 3-decimal round trip).
    """
    s = str(raw)
    whole = int(s[:-3]) if s[:-3] else 0
    x = whole + int(s[-3:]) / 1000
    return raw > 0 and round(x, 3) == x


_BPM_POOL_RAW = [
    60000, 90000, 100000, 117000, 120000, 120500, 133333, 140250, 150000, 175125, 180000,
    200000, 240000, 300000, 45000, 30000, 999999, 1000, 2500, 12345, 87654, 250,
]
BPM_POOL = [b for b in _BPM_POOL_RAW if bpm_representable(b)]


def draw_bpm(rng: Any) -> int:
    """A tempo value: from the fixed pool, or (a third of the time) any thousandth-BPM value in
    the usual range - arithmetic slips (truncation instead of rounding, a lossy round trip) show
    for a small fraction of all values only."""
    if rng.random() < 0.35:
        for _ in range(8):
            raw = rng.randint(20_000, 400_000)
            if bpm_representable(raw):
                return raw
    return rng.choice(BPM_POOL)


def triplet_threshold(resolution: int) -> int:
    return round(resolution / 3)


# ----------------------------------------------------------------------------------------------
# document model
# ----------------------------------------------------------------------------------------------
# doc = {
#   "resolution": int,
#   "meta": [[Pascal, rendered_value_text], ...]      (lines of [Song], Resolution included)
#   "tempos": [[tick, raw_bpm], ...]
#   "tsigs":  [[tick, upper, lower|None], ...]
#   "anchors":[[tick, us], ...]
#   "sync_order": "canonical"                          (B/TS/A merged by tick)
#   "events": [[tick, kind, value], ...]               kind in lyric/section/text
#   "tracks": [[header, [group, ...], [[tick,len]...star power], [[tick, word]...]], ...]
#        group = {"tick":t, "lanes":[0..4]|"open", "sus":[per lane]|int, "tap":bool, "forced":bool}
#   "unknown": [[name, [body lines]], ...]
# }


def gen_doc(rng: random.Random, *, resolutions: list[int] | None = None, max_tracks: int = 4,
            headers: list[str] | None = None, small: bool = False,
            thresholds_for: list[int] | None = None) -> dict[str, Any]:
    res = rng.choice(resolutions or RESOLUTION_POOL)
    thr_pool = sorted({triplet_threshold(r) for r in (thresholds_for or [res])} | {triplet_threshold(res)})
    doc: dict[str, Any] = {"resolution": res}

    # ---- metadata
    meta: list[list[str]] = []
    present = [f for f in META_FIELDS[1:] if rng.random() < (0.25 if small else 0.5)]
    for pas, _sn, kind in present:
        if kind == "int":
            meta.append([pas, str(rng.choice([0, 1, 6, 42, 1999]))])
        elif kind == "p2":
            meta.append([pas, rng.choice(["bass", "rhythm"])])
        else:
            meta.append([pas, '"' + rng.choice(WORDS) + '"'])
    meta.insert(rng.randrange(len(meta) + 1), ["Resolution", str(res)])
    doc["meta"] = meta

    # ---- tempo map
    n_t = rng.choice([1, 1, 2, 2, 3, 4, 6] if not small else [1, 2, 3])
    span = max(4 * res, 40)
    tempos = [[0, draw_bpm(rng)]]
    t = 0
    for _ in range(n_t - 1):
        t += rng.choice([1, max(1, res // 2), res, 2 * res, 4 * res, rng.randint(1, span)])
        tempos.append([t, draw_bpm(rng)])
    doc["tempos"] = tempos
    horizon = t + span

    tsigs = [[0, rng.choice([4, 3, 6, 7]), rng.choice([None, None, 2, 3])]]
    for _ in range(rng.choice([0, 0, 1, 2])):
        tsigs.append([tsigs[-1][0] + rng.randint(1, horizon), rng.choice([2, 3, 4, 5, 12]),
                      rng.choice([None, 1, 2, 3, 4])])
    doc["tsigs"] = tsigs
    anchors = []
    for _ in range(rng.choice([0, 0, 0, 1, 2])):
        anchors.append([rng.randint(0, horizon), rng.randint(0, 10_000_000)])
    anchors.sort()
    doc["anchors"] = anchors

    # ---- global events
    events = []
    t = 0
    for _ in range(rng.choice([0, 1, 2, 4, 8] if not small else [0, 1, 3])):
        t += rng.choice([0, 1, res, rng.randint(0, horizon // 2 + 1)])
        kind = rng.choice(["lyric", "section", "text"])
        val = rng.choice(WORDS)
        if kind == "text" and (val.startswith("lyric ") or val.startswith("section ")):
            val = "phrase_start"
        events.append([t, kind, val])
    doc["events"] = events

    # ---- instrument sections
    if headers is None:
        k = rng.randint(0 if not small else 1, max_tracks)
        headers = rng.sample(ALL_HEADERS, k)
    tracks = []
    for j, header in enumerate(headers):
        tracks.append(gen_track(rng, header, j, res, thr_pool, horizon, small=small))
    doc["tracks"] = tracks

    unknown = []
    for _ in range(rng.choice([0, 0, 0, 1])):
        name = rng.choice(["Foo", "PART VOCALS", "ExpertSingleX", "expertsingle", "Song2"])
        body = [rng.choice(["0 = N 0 0", "junk", "x = y", "100 = E \"hello\""])
                for _ in range(rng.randint(0, 3))]
        unknown.append([name, body])
    doc["unknown"] = unknown
    return doc


def add_far_events(rng: random.Random, doc: dict[str, Any]) -> None:
    """Ticks of eight digits (the widest the properties speak of): an event, a lyric, a note and
    a star-power phrase hours into the song."""
    far = rng.choice([10_000_000, 12_345_678, 99_999_000])
    doc["events"].append([far + 1, rng.choice(["lyric", "section", "text"]), "far"])
    doc["events"].sort(key=lambda e: e[0])
    for tr in doc["tracks"][:2]:
        last = max([gr["tick"] for gr in tr[1]] + [0])
        t = max(far, last + 1) + rng.randint(0, 99)
        tr[1].append({"tick": t, "lanes": [rng.randrange(5)], "sus": rng.choice([0, 0, 100]),
                      "tap": False, "forced": False})
        if rng.random() < 0.5:
            sp_last = max([a + b for a, b in tr[2]] + [0])
            tr[2].append([max(far - 10, sp_last + 1), 500])


def add_many_notes(rng: random.Random, doc: dict[str, Any], n: int) -> None:
    """A track of ``n`` more notes at distinct ticks (sizes and depths that small charts never
    reach)."""
    if not doc["tracks"]:
        return
    tr = doc["tracks"][0]
    t = max([gr["tick"] for gr in tr[1]] + [0])
    res = doc["resolution"]
    for _ in range(n):
        t += rng.choice([1, res // 4 + 1, res])
        tr[1].append({"tick": t, "lanes": sorted(rng.sample(range(5), rng.choice([1, 1, 2, 3]))),
                      "sus": rng.choice([0, 0, 0, res]), "tap": False, "forced": rng.random() < 0.1})


def gen_track(rng: random.Random, header: str, j: int, res: int, thr_pool: list[int],
              horizon: int, *, small: bool = False) -> list[Any]:
    """One instrument section.  Ticks are offset by the section index so that every section
    of a document has its own tick set (cross-routing becomes visible)."""
    n_groups = rng.choice([0, 1, 2, 3, 5, 8, 12] if not small else [1, 2, 4, 6])
    gaps = [1, res, 2 * res, max(1, res // 2), max(1, res // 4)]
    for thr in thr_pool:
        gaps += [max(1, thr - 1), max(1, thr), thr + 1] * 2
    groups = []
    t = rng.choice([0, res, rng.randint(0, max(1, horizon // 2))]) + j + 1
    for g in range(n_groups):
        if g:
            t += rng.choice(gaps)
        r = rng.random()
        if r < 0.08:
            lanes: Any = "open"
        elif r < 0.6:
            lanes = [rng.randrange(5)]
        else:
            lanes = sorted(rng.sample(range(5), rng.randint(2, 5)))
        sr = rng.random()
        n_l = 1 if lanes == "open" else len(lanes)
        if sr < 0.6:
            sus: Any = 0
        elif sr < 0.8 or n_l == 1:
            sus = rng.choice([1, res // 2 + 1, res, 3 * res + 7])
        else:
            sus = [rng.choice([0, 1, res, 2 * res + 3]) for _ in range(n_l)]
        groups.append({
            "tick": t,
            "lanes": lanes,
            "sus": sus,
            "tap": rng.random() < 0.1,
            "forced": g > 0 and rng.random() < 0.15,
        })
    last = t
    sp = []
    st = rng.randint(0, max(1, last // 2 + 1))
    for _ in range(rng.choice([0, 0, 1, 2, 3])):
        ln = rng.choice([0, 1, res, 2 * res, rng.randint(1, max(2, last // 2 + 2))])
        sp.append([st, ln])
        st += rng.choice([ln, ln + 1, max(0, ln - 1) + 1, ln + res])
    ev = []
    et = 0
    for _ in range(rng.choice([0, 0, 1, 2])):
        et += rng.randint(0, max(1, last))
        ev.append([et, rng.choice(TRACK_EVENT_WORDS)])
    return [header, groups, sp, ev]


# ----------------------------------------------------------------------------------------------
# rendering
# ----------------------------------------------------------------------------------------------

def sync_lines(doc: dict[str, Any]) -> list[str]:
    rows = []
    for tick, u, low in doc["tsigs"]:
        rows.append((tick, 0, f"{tick} = TS {u}" + (f" {low}" if low is not None else "")))
    for tick, raw in doc["tempos"]:
        rows.append((tick, 1, f"{tick} = B {raw}"))
    for tick, us in doc["anchors"]:
        rows.append((tick, 2, f"{tick} = A {us}"))
    rows.sort(key=lambda r: (r[0], r[1]))
    return [r[2] for r in rows]


def event_lines(doc: dict[str, Any]) -> list[str]:
    out = []
    for tick, kind, val in doc["events"]:
        text = val if kind == "text" else f"{kind} {val}"
        out.append(f'{tick} = E "{text}"')
    return out


def group_lines(g: dict[str, Any]) -> list[str]:
    t = g["tick"]
    out = []
    if g["lanes"] == "open":
        s = g["sus"] if isinstance(g["sus"], int) else g["sus"][0]
        out.append(f"{t} = N 7 {s}")
    else:
        for k, lane in enumerate(g["lanes"]):
            s = g["sus"] if isinstance(g["sus"], int) else g["sus"][k]
            out.append(f"{t} = N {lane} {s}")
    if g["forced"]:
        out.append(f"{t} = N 5 0")
    if g["tap"]:
        out.append(f"{t} = N 6 0")
    return out


def track_lines(track: list[Any]) -> list[str]:
    _header, groups, sp, ev = track
    rows = []
    for g in groups:
        for ln in group_lines(g):
            rows.append((g["tick"], 0, ln))
    for tick, length in sp:
        rows.append((tick, 1, f"{tick} = S 2 {length}"))
    for tick, word in ev:
        rows.append((tick, 2, f"{tick} = E {word}"))
    rows.sort(key=lambda r: (r[0], r[1]))  # stable: N lines of one tick stay contiguous
    return [r[2] for r in rows]


def sections(doc: dict[str, Any]) -> list[list[Any]]:
    """[[header, [body lines]], ...] in canonical order, unknown sections last."""
    secs: list[list[Any]] = [
        ["Song", [f"{k} = {v}" for k, v in doc["meta"]]],
        ["SyncTrack", sync_lines(doc)],
        ["Events", event_lines(doc)],
    ]
    for tr in doc["tracks"]:
        secs.append([tr[0], track_lines(tr)])
    for name, body in doc["unknown"]:
        secs.append([name, list(body)])
    return secs


def render_sections(secs: list[list[Any]], *, newline: str = "\n", indent: str = "  ",
                    final_newline: bool = True) -> str:
    lines = []
    for header, body in secs:
        lines.append(f"[{header}]")
        lines.append("{")
        for b in body:
            lines.append(indent + b)
        lines.append("}")
    text = newline.join(lines)
    if final_newline:
        text += newline
    return text


def render(doc: dict[str, Any], *, order: list[int] | None = None, newline: str = "\n",
           indent: str = "  ", final_newline: bool = True) -> str:
    secs = sections(doc)
    if order is not None:
        secs = [secs[i] for i in order]
    return render_sections(secs, newline=newline, indent=indent, final_newline=final_newline)


# ----------------------------------------------------------------------------------------------
# texts that must fail (C17 corpora contain these on purpose)
# ----------------------------------------------------------------------------------------------

def failing_variant(rng: random.Random, doc: dict[str, Any]) -> tuple[str, str, str]:
    """(kind, text, expected exception class name) derived from a well-formed document."""
    d = copy.deepcopy(doc)
    kind = rng.choice(["missing_section", "stray_line", "no_resolution", "unordered_tempo",
                       "forced_first", "zero_tempo_used", "no_tick0_ts"])
    if kind == "missing_section":
        secs = sections(d)
        drop = rng.randrange(3)
        secs = [s for i, s in enumerate(secs) if i != drop]
        return kind, render_sections(secs), "ValueError"
    if kind == "stray_line":
        secs = sections(d)
        text = render_sections(secs[:1]) + "stray line outside any section\n" + render_sections(secs[1:])
        return kind, text, "RegexNotMatchError"
    if kind == "no_resolution":
        d["meta"] = [m for m in d["meta"] if m[0] != "Resolution"]
        return kind, render(d), "MissingRequiredField"
    if kind == "unordered_tempo":
        last = d["tempos"][-1][0]
        d["tempos"].append([last + 10, 120000])
        d["tempos"].append([last + 10, 90000])  # not strictly increasing
        return kind, render(d), "ValueError"
    if kind == "forced_first":
        tr = gen_track(rng, "ExpertSingle", 0, d["resolution"], [triplet_threshold(d["resolution"])], 100)
        tr[1] = [{"tick": 5, "lanes": [0], "sus": 0, "tap": False, "forced": True}] + [
            g for g in tr[1] if g["tick"] > 5]
        d["tracks"] = [t for t in d["tracks"] if t[0] != "ExpertSingle"] + [tr]
        return kind, render(d), "ValueError"
    if kind == "zero_tempo_used":
        d["tempos"] = [[0, 0]] + d["tempos"][1:]
        d["events"] = d["events"] + [[d["events"][-1][0] + 1 if d["events"] else 1, "text", "late"]]
        # a tempo of zero at tick 0 governs the event (or the next tempo event) -> ValueError
        if len(d["tempos"]) > 1 and d["tempos"][1][0] <= d["events"][-1][0]:
            pass
        return kind, render(d), "ValueError"
    d["tsigs"] = [[ts[0] + 3, ts[1], ts[2]] for ts in d["tsigs"]]
    return "no_tick0_ts", render(d), "ValueError"


def doc_summary(doc: dict[str, Any]) -> dict[str, Any]:
    return {
        "resolution": doc["resolution"],
        "tempos": len(doc["tempos"]),
        "tsigs": len(doc["tsigs"]),
        "events": len(doc["events"]),
        "tracks": [[t[0], len(t[1]), len(t[2]), len(t[3])] for t in doc["tracks"]],
        "unknown": [u[0] for u in doc["unknown"]],
    }
