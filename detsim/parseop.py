"""The ``parse`` operation of the simulated clients: bytes on the simulated disk -> Chart, through
``Chart.from_filepath`` (real ``open`` arguments honoured by SimFS) or ``Chart.from_file`` with
one of several reader kinds, following the op's I/O tape."""

from __future__ import annotations

import pathlib
from typing import Any

from . import simfs, world


def access_key(op: dict[str, Any]) -> list[Any]:
    """What identifies the fault-free way an op reads its text (reference key)."""
    sel = op.get("select")
    selk = None if sel is None else [sel.get("form"), [list(p) for p in sel["pairs"]]]  # faults excluded
    extra = ["logging-off"] if op.get("logging_off") else []
    if op.get("via") == "path":
        return [op["text"], selk, "path"] + extra
    return [op["text"], selk, "file", op.get("reader") or "stringio", op.get("newline"),
            op.get("encoding") or "utf-8"] + extra


def stored_name(op: dict[str, Any], name: str) -> str:
    """File name an op stores its text under: normally unique per op; with a ``slot`` the same
    path is written again and again (a file replaced in place between parses)."""
    if op.get("shared_slot") is not None:
        name = f"shared{op['shared_slot']}"  # ONE path used by every caller thread
    elif op.get("slot") is not None:
        name = name.split("o")[0] + f"slot{op['slot']}"
    if op.get("fname"):
        # file and folder names as users have them: blanks, braces, per-cent signs, non-ASCII
        name = op["fname"].replace("@", name)
    return name


def do_parse(fs: simfs.SimFS, op: dict[str, Any], data: bytes, name: str,
             faults: bool = True) -> Any:
    if op.get("logging_off"):
        # the application has switched logging off for this call (process-global: planned only
        # for runs with a single client)
        import logging

        logging.disable(logging.CRITICAL)
        try:
            return _do_parse(fs, op, data, name, faults)
        finally:
            logging.disable(logging.NOTSET)
    return _do_parse(fs, op, data, name, faults)


def _do_parse(fs: simfs.SimFS, op: dict[str, Any], data: bytes, name: str,
              faults: bool = True) -> Any:
    from chartparse.chart import Chart

    selp = op.get("select")
    if faults:
        name = stored_name(op, name)
    tape = dict(op.get("io") or {}) if faults else {}
    if op.get("via") == "path":
        p = fs.put(name + ".chart", data, special=bool(op.get("special_file")) and faults)
        fs.queue_tape(p, tape)
        path_obj: Any = pathlib.Path(p) if not op.get("str_path") else p
        if selp is None:
            return Chart.from_filepath(path_obj)
        return world.with_selection(selp, lambda w: Chart.from_filepath(path_obj, want_tracks=w))
    kind = op.get("reader") or "stringio"
    if kind in ("textio", "codecs"):
        p = fs.put(name + ".chart", data)
        for s, k in (tape.get("split_kinds") or []):
            fs.split_kinds[(p, int(s))] = k
        fp = simfs.make_reader(kind, data, fs=fs, path=p, encoding=op.get("encoding") or "utf-8",
                               newline=op.get("newline"), tape=tape)
    else:
        rf = op.get("reader_fault") if faults else None
        fp = simfs.make_reader(kind, data, encoding=op.get("encoding") or "utf-8",
                               newline=op.get("newline"), chunk=int(tape.get("chunk") or 7),
                               fail_at=int(rf["at"]) if rf else None,
                               fail_exc=rf["exc_obj"] if rf else None,
                               fail_consume=int(rf.get("consume") or 0) if rf else 0)
        if rf:
            rf["reader"] = fp
    if selp is None:
        return Chart.from_file(fp)
    return world.with_selection(selp, lambda w: Chart.from_file(fp, want_tracks=w))


def gen_io_tape(r: Any, data: bytes, *, aim: bool = True) -> dict[str, Any]:
    """A result-preserving I/O tape: short reads, tiny buffers/decoder chunks, EINTR, chunk
    boundaries aimed inside CRLF pairs, the BOM and multi-byte sequences."""
    tape: dict[str, Any] = {}
    mode = r.random()
    if mode < 0.3:
        tape["reads"] = [r.choice([1, 2, 3, 5, 7])]
    elif mode < 0.7:
        tape["reads"] = [r.choice([1, 2, 3, 4, 8, 13, 64, 100, 4096]) for _ in range(r.randint(1, 12))]
    else:
        tape["reads"] = [1 << 20]
    if r.random() < 0.5:
        tape["buffer_size"] = r.choice([1, 2, 3, 7, 16, 64])
    if r.random() < 0.5:
        tape["chunk_size"] = r.choice([1, 2, 3, 5, 8, 32])
    if r.random() < 0.3:
        tape["eintr_at"] = sorted({r.randint(1, 6) for _ in range(r.randint(1, 3))})
    if aim:
        pts = simfs.interesting_splits(data)
        if pts:
            chosen = [pts[r.randrange(len(pts))] for _ in range(min(len(pts), r.randint(1, 6)))]
            tape["split_at"] = sorted({p for p, _ in chosen})
            tape["split_kinds"] = sorted({(p, k) for p, k in chosen})
            tape["split_kinds"] = [list(x) for x in tape["split_kinds"]]
    return tape
