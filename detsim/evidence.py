"""Evidence writer: everything in here is a counter measured by the run that just finished."""

from __future__ import annotations

import json
import os
import platform
from typing import Any

from . import env

COMPONENTS = {
    "real": [
        "all of chartparse (imported from the working tree)",
        "CPython io.BufferedReader / io.TextIOWrapper / codecs on top of the simulated raw device",
        "logging, the import system, functools caches, the interpreter (3.12)",
        "threading.Condition / Event / Semaphore / RLock, queue.Queue, queue._PySimpleQueue and "
        "concurrent.futures.ThreadPoolExecutor (real stdlib code on top of cooperative locks) when the "
        "library under test uses them",
    ],
    "stub": [
        "raw byte device and file namespace (SimRaw / SimFS)",
        "scheduler decisions (who runs after each line event / operation boundary)",
        "log sink (handler on the 'chartparse' logger)",
        "caller threads' workload (generated operation histories)",
        "threading.Lock / _allocate_lock (cooperative: blocking hands the baton to the scheduler), "
        "Thread.start/join/is_alive for threads the library starts (adopted as scheduler clients), "
        "threading._time / queue's clock / time.sleep for simulated threads (simulated time), "
        "hash of Thread and Future objects made in a run (creation number instead of address)",
    ],
    "absent_in_system": [
        "clocks, timers, deadlines (none on the unchanged tree; timed waits of a library that has "
        "them run in simulated time)", "network and peers", "writes / durability", "retries",
        "background work",
    ],
}
FAULT_KINDS_NOT_PRESENT = [
    "message loss/duplication/reordering/delay", "partitions and heals", "clock skew and jumps",
    "torn/lost writes by the system under test", "full disk", "slow or stalled nodes",
]


def write_evidence(mod: Any, tier: str, seed: int, agg: Any, wall: float, wall_batch: float,
                   planned: int, budget: float, workers: int, n_violations: int,
                   replay_path: str | None) -> str:
    hours = max(wall_batch, 1e-9) / 3600.0
    cov: dict[str, Any] = {
        "evaluations": int(agg.evals),
        "distinct_nontrivial": int(len(agg.nontrivial)),
        "rule": mod.RULE,
        "samples": agg.samples or [],
        "exhaustive": bool(getattr(mod, "EXHAUSTIVE", {}).get(tier, False)) and agg.runs == planned,
        "runs": agg.runs,
        "planned_runs": planned,
        "runs_per_hour": round(agg.runs / hours),
        "evaluations_per_hour": round(agg.evals / hours),
        "seeds_first_last": [agg.first_index, agg.last_index],
        "seed_derivation": "run seed i = SHA-256(VERIF_SEED, property, i)[:8]; one seed = one run",
        "sim_steps_total": agg.sim_steps,
        "simulated_time": f"{agg.sim_steps} scheduler steps (the system has no clock; simulated "
                          "time is the global step counter)",
        "ops_total": agg.ops,
        "context_switches": agg.switches,
        "mid_operation_switches": agg.mid_op_switches,
        "distinct_interleavings": len(agg.interleavings),
        "distinct_interleavings_measure": "distinct SHA-256 over the sequence of (from thread, to "
                                          "thread, file:line) at every context switch plus "
                                          "operation begin/end order",
        "distinct_switch_location_pairs": len(agg.loc_pairs),
        "faults_fired": dict(sorted(agg.sums["faults_fired"].items())),
        "faults_configured": dict(sorted(agg.sums["faults_configured"].items())),
        "fault_kinds_not_present_in_system": FAULT_KINDS_NOT_PRESENT,
        "probes": dict(sorted(agg.sums["probes"].items())),
        "counters": dict(sorted(agg.sums["counters"].items())),
        "discarded": dict(sorted(agg.sums["discarded"].items())),
        "sub_batches": dict(sorted(agg.sums["sub_batches"].items())),
        "schedule_modes": dict(sorted(agg.sums["schedule_modes"].items())),
        "knobs": dict(sorted(agg.sums["knobs"].items())),
        "fresh_interpreter_references": agg.fresh_refs,
        "known_findings_hit": dict(sorted(agg.known_hits.items())),
        "distinct_dropped_over_cap": agg.nontrivial_dropped,
        "components": COMPONENTS,
        "harness_errors": len(agg.harness_errors),
        "discarded_runs": agg.discarded_runs,
        "budget_s": budget,
        "workers": workers,
        "python": platform.python_version(),
        "replay": replay_path,
    }
    cov.update(env.repo_head())
    extra = getattr(mod, "evidence_extra", None)
    if extra is not None:
        cov.update(extra(agg, tier))
    ev = {
        "property_id": mod.PROP,
        "tier": tier,
        "seed": int(seed),
        "level": mod.LEVEL,
        "coverage": cov,
        "assumptions": list(mod.ASSUMPTIONS),
        "wall_s": round(wall, 3),
        "violations": int(n_violations),
    }
    d = os.path.join(env.VERIF_ROOT, "evidence")
    os.makedirs(d, exist_ok=True)
    path = os.path.join(d, f"{mod.PROP}.json")
    tmp = path + ".tmp"
    with open(tmp, "w", encoding="utf-8") as f:
        json.dump(ev, f, indent=1, sort_keys=True, ensure_ascii=True)
        f.write("\n")
    os.replace(tmp, path)
    return path
