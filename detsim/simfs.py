"""Simulated disk and readers.

Only the *raw byte device* is a stub; on top of it sit the real C ``io.BufferedReader`` and
``io.TextIOWrapper`` (and the real codecs), configured with exactly the arguments the code under
test passes to ``open``.  The device follows an I/O tape from the plan: short reads, chunk
boundaries forced inside CRLF / BOM / multi-byte sequences, EINTR, EIO.
"""

from __future__ import annotations

import builtins
import codecs
import errno
import io
import os
from typing import Any

SIM_MTIME_NS = 1_000_000_000 * 1_000_000_000
_real_open = builtins.open
_real_io_open = io.open


class SimRaw(io.RawIOBase):
    def __init__(self, fs: "SimFS", path: str, data: bytes, tape: dict[str, Any]) -> None:
        super().__init__()
        self.fs = fs
        self.path = path
        self.data = data
        self.pos = 0
        self.calls = 0
        self.tape = tape
        self.reads = list(tape.get("reads") or [1 << 20])
        self.read_i = 0
        self.eintr_at = set(tape.get("eintr_at") or [])
        self.eio_at = tape.get("eio_at")
        self.splits = sorted(set(tape.get("split_at") or []))
        self.name = path

    def readable(self) -> bool:
        return True

    def readinto(self, b: Any) -> int:
        self.calls += 1
        st = self.fs.stats
        if self.calls in self.eintr_at:
            self.eintr_at.discard(self.calls)
            st["eintr"] = st.get("eintr", 0) + 1
            raise InterruptedError(errno.EINTR, "simulated EINTR")
        if self.eio_at is not None and self.calls >= self.eio_at:
            st["eio"] = st.get("eio", 0) + 1
            self.fs.eio_raised.append(self.path)
            raise OSError(errno.EIO, "simulated EIO", self.path)
        remaining = len(self.data) - self.pos
        if remaining <= 0:
            return 0
        want = len(b)
        n = min(want, remaining, max(1, int(self.reads[self.read_i % len(self.reads)])))
        self.read_i += 1
        for s in self.splits:
            if self.pos < s < self.pos + n:
                n = s - self.pos
                st["forced_split"] = st.get("forced_split", 0) + 1
                kind = self.fs.split_kinds.get((self.path, s))
                if kind:
                    st[kind] = st.get(kind, 0) + 1
                break
        if n < min(want, remaining):
            st["short_read"] = st.get("short_read", 0) + 1
        b[:n] = self.data[self.pos:self.pos + n]
        self.pos += n
        return n

    def close(self) -> None:
        if not self.closed:
            self.fs.closed_handles += 1
        super().close()


class SimText(io.TextIOBase):
    """A text reader written in Python.  ``read()`` returns everything; sized reads and
    ``readline`` return short / chunked data, which the ``TextIOBase`` contract allows."""

    def __init__(self, text: str, chunk: int = 7, fail_at: int | None = None,
                 fail_exc: BaseException | None = None, fail_consume: int = 0) -> None:
        super().__init__()
        self._t = text
        self._p = 0
        self._chunk = max(1, chunk)
        self.sized_reads = 0
        self._calls = 0
        self._fail_at = fail_at
        self._fail_exc = fail_exc
        self._fail_consume = fail_consume
        self.fault_fired = False

    def _maybe_fail(self) -> None:
        self._calls += 1
        if self._fail_at is not None and not self.fault_fired and self._calls >= self._fail_at:
            self.fault_fired = True
            assert self._fail_exc is not None
            # a read that fails has usually consumed part of the stream already
            self._p = min(len(self._t), self._p + self._fail_consume)
            raise self._fail_exc

    def readable(self) -> bool:
        return True

    def read(self, size: int | None = -1) -> str:  # type: ignore[override]
        self._maybe_fail()
        if size is None or size < 0:
            out = self._t[self._p:]
            self._p = len(self._t)
            return out
        self.sized_reads += 1
        n = min(size, self._chunk)
        out = self._t[self._p:self._p + n]
        self._p += len(out)
        return out

    def readline(self, size: int = -1) -> str:  # type: ignore[override]
        self._maybe_fail()
        j = self._t.find("\n", self._p)
        end = len(self._t) if j < 0 else j + 1
        if size is not None and size >= 0:
            end = min(end, self._p + size)
        out = self._t[self._p:end]
        self._p = end
        return out


class _WeakHandles:
    """Handles opened through the seam, held WEAKLY: a handle nobody references any more is
    finalised (closed) by the interpreter like any real file object."""

    def __init__(self) -> None:
        import weakref

        self._refs: list[Any] = []
        self._weakref = weakref

    def append(self, h: Any) -> None:
        self._refs.append(self._weakref.ref(h))

    def __iter__(self) -> Any:
        for r in self._refs:
            h = r()
            if h is not None:
                yield h


class SimFS:
    def __init__(self, root: str) -> None:
        self.root = os.path.join(os.path.abspath(root), "")
        self.files: dict[str, bytes] = {}
        self.tapes: dict[str, list[dict[str, Any]]] = {}
        self.split_kinds: dict[tuple[str, int], str] = {}
        self.stats: dict[str, int] = {}
        self.opened: list[tuple[str, str, dict[str, Any]]] = []
        self.open_handles: Any = _WeakHandles()
        self.closed_handles = 0
        self.eio_raised: list[str] = []
        self.max_open: int | None = None  # simulated per-process limit on open files (EMFILE)
        self._installed: list[tuple[Any, str, Any]] = []
        os.makedirs(self.root, exist_ok=True)

    def path(self, name: str) -> str:
        return os.path.join(self.root, name)

    def put(self, name: str, data: bytes, special: bool = False) -> str:
        """``special``: the path names a pipe / FIFO / procfs-style file: stat reports size 0 and
        only an open-and-read delivers the content (the real file that backs the path is empty)."""
        p = self.path(name)
        self.files[p] = data
        if special:
            data = b""
        try:
            os.makedirs(os.path.dirname(p), exist_ok=True)
            with _real_open(p, "wb") as f:  # also materialised: code bypassing the seam reads it
                f.write(data)
        except UnicodeEncodeError:
            # non-ASCII name under an ASCII file-system encoding (C-locale slice): the file lives
            # on the simulated disk only
            return p
        # the simulation has no clock: every stored file carries the same modification time, as
        # after `cp -p` / `rsync -t` / unpacking an archive (a stat-validated cache must not
        # mistake a replaced file for the old one)
        os.utime(p, ns=(SIM_MTIME_NS, SIM_MTIME_NS))
        return p

    def queue_tape(self, path: str, tape: dict[str, Any]) -> None:
        """The next open of ``path`` uses this I/O tape."""
        self.tapes.setdefault(path, []).append(tape)
        for s, kind in (tape.get("split_kinds") or []):
            self.split_kinds[(path, int(s))] = kind

    def raw(self, path: str, tape: dict[str, Any] | None = None) -> SimRaw:
        if tape is None:
            q = self.tapes.get(path)
            tape = q.pop(0) if q else {}
        return SimRaw(self, path, self.files[path], tape)

    # -- the seam ------------------------------------------------------------------------------
    def open(self, file: Any, mode: str = "r", buffering: int = -1, encoding: Any = None,
             errors: Any = None, newline: Any = None, closefd: bool = True,
             opener: Any = None) -> Any:
        try:
            p = os.path.abspath(os.fspath(file)) if not isinstance(file, int) else None
        except TypeError:
            p = None
        if p is None or p not in self.files:
            return _real_open(file, mode, buffering, encoding, errors, newline, closefd, opener)
        if any(ch in mode for ch in "wax+"):
            raise OSError(errno.EROFS, "simulated disk is read-only", p)
        if self.max_open is not None:
            import gc

            alive = [h for h in self.open_handles if not h.closed]
            if len(alive) >= self.max_open:
                del alive
                gc.collect()  # handles nobody references any more are closed by their finalisers
            alive_n = sum(1 for h in self.open_handles if not h.closed)
            if alive_n >= self.max_open:
                self.stats["emfile"] = self.stats.get("emfile", 0) + 1
                raise OSError(errno.EMFILE, "simulated: too many open files", p)
        q = self.tapes.get(p)
        tape = q.pop(0) if q else {}
        self.opened.append((p, mode, {"encoding": encoding, "newline": newline, "errors": errors}))
        raw = SimRaw(self, p, self.files[p], tape)
        bufsize = int(tape.get("buffer_size") or (buffering if buffering and buffering > 0
                                                  else io.DEFAULT_BUFFER_SIZE))
        if buffering == 0:
            if "b" not in mode:
                raise ValueError("can't have unbuffered text I/O")
            self.open_handles.append(raw)
            return raw
        buf = io.BufferedReader(raw, buffer_size=max(1, bufsize))
        if "b" in mode:
            self.open_handles.append(buf)
            return buf
        txt = io.TextIOWrapper(buf, encoding=encoding, errors=errors, newline=newline)
        if tape.get("chunk_size"):
            txt._CHUNK_SIZE = max(1, int(tape["chunk_size"]))
        txt.mode = mode  # type: ignore[misc]
        self.open_handles.append(txt)
        return txt

    def install(self) -> None:
        """Shadow ``open`` where the code under test resolves it, and the generic entry points so
        that a refactor to ``io.open`` / ``Path.open`` still goes through the simulated disk."""
        import chartparse.chart as cc

        self._installed.append((cc, "open", cc.__dict__.get("open", _MISSING)))
        cc.open = self.open  # type: ignore[attr-defined]
        self._installed.append((builtins, "open", builtins.open))
        builtins.open = self.open  # type: ignore[assignment]
        self._installed.append((io, "open", io.open))
        io.open = self.open  # type: ignore[assignment]

    def uninstall(self) -> None:
        for mod, name, old in reversed(self._installed):
            if old is _MISSING:
                try:
                    delattr(mod, name)
                except AttributeError:
                    pass
            else:
                setattr(mod, name, old)
        self._installed.clear()

    def unclosed(self) -> int:
        return sum(1 for h in self.open_handles if not h.closed)


_MISSING = object()


def make_reader(kind: str, data: bytes, *, fs: SimFS | None = None, path: str | None = None,
                encoding: str = "utf-8", newline: Any = None, tape: dict[str, Any] | None = None,
                chunk: int = 7, fail_at: int | None = None,
                fail_exc: BaseException | None = None, fail_consume: int = 0) -> Any:
    """A caller-supplied reader for ``Chart.from_file``."""
    if kind == "stringio":
        enc = "utf-8-sig" if encoding == "utf-8-sig" else "utf-8"
        return io.StringIO(data.decode(enc), newline=newline)
    if kind == "simtext":
        enc = "utf-8-sig" if encoding == "utf-8-sig" else "utf-8"
        return SimText(data.decode(enc), chunk=chunk, fail_at=fail_at, fail_exc=fail_exc,
                       fail_consume=fail_consume)
    if kind == "textio":
        assert fs is not None and path is not None
        raw = fs.raw(path, tape or {})
        t = tape or {}
        buf = io.BufferedReader(raw, buffer_size=max(1, int(t.get("buffer_size") or 8192)))
        txt = io.TextIOWrapper(buf, encoding=encoding, newline=newline)
        if t.get("chunk_size"):
            txt._CHUNK_SIZE = max(1, int(t["chunk_size"]))
        return txt
    if kind == "codecs":
        assert fs is not None and path is not None
        raw = fs.raw(path, tape or {})
        t = tape or {}
        buf = io.BufferedReader(raw, buffer_size=max(1, int(t.get("buffer_size") or 8192)))
        return codecs.getreader(encoding)(buf)
    raise ValueError(kind)


def interesting_splits(data: bytes) -> list[tuple[int, str]]:
    """Byte offsets strictly inside CRLF pairs, the BOM and multi-byte UTF-8 sequences."""
    out: list[tuple[int, str]] = []
    if data.startswith(b"\xef\xbb\xbf"):
        out += [(1, "split_bom"), (2, "split_bom")]
    i = 0
    n = len(data)
    while i < n:
        c = data[i]
        if c == 0x0D and i + 1 < n and data[i + 1] == 0x0A:
            out.append((i + 1, "split_crlf"))
        elif c >= 0xC0:
            ln = 2 if c < 0xE0 else 3 if c < 0xF0 else 4
            if i >= 3 or not data.startswith(b"\xef\xbb\xbf"):
                for k in range(1, ln):
                    if i + k < n:
                        out.append((i + k, "split_multibyte"))
            i += ln - 1
        i += 1
    return out
