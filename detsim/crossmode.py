"""Outcome of parsing given bytes in a fresh interpreter started in the DEFAULT configuration
(no -O / -OO, UTF-8 locale): the comparison partner for runs made in an interpreter-configuration
slice.  No property allows the interpreter's optimisation level or locale to matter."""

from __future__ import annotations

import json
import os
import subprocess
from typing import Any

from . import env


def slice_name() -> str:
    return os.environ.get("VERIF_SLICE_NAME") or ""


def fresh_default_outcome(data: bytes, hashseed: int = 0) -> dict[str, Any] | None:
    d = os.path.join(env.scratch(), "fresh")
    os.makedirs(d, exist_ok=True)
    path = os.path.join(d, f"x-{os.getpid()}.chart")
    with open(path, "wb") as fh:
        fh.write(data)
    req = {"path": path, "select": None, "via": "file", "reader": "stringio", "newline": "\n",
           "encoding": "utf-8"}
    try:
        p = subprocess.run([env.PYTHON, "-m", "detsim.freshref"], input=json.dumps(req).encode("utf-8"),
                           capture_output=True, timeout=120,
                           env=env.fresh_interpreter_env(hashseed, "default"), cwd=env.VERIF_ROOT)
    except subprocess.TimeoutExpired:
        return None
    finally:
        try:
            os.unlink(path)
        except OSError:
            pass
    if p.returncode != 0:
        return None
    return json.loads(p.stdout.decode("ascii"))
