"""Reference computation in a genuinely fresh interpreter (own PYTHONHASHSEED).

stdin : JSON {"path": <file with the bytes>, "select": ..., "via": "file"|"path",
              "reader": ..., "newline": ..., "encoding": ...}
stdout: JSON outcome {"kind": "ok", "digest": ..., "log": [...]} | {"kind": "exc", "exc": [...], "log": [...]}
"""

from __future__ import annotations

import json
import sys


def compute(req: dict) -> dict:
    from detsim import env, simfs, world
    from detsim.observe import outcome

    env.import_chartparse_plain()
    world.install_log_sink()
    from chartparse.chart import Chart

    sel = world.selection(req.get("select"))
    with open(req["path"], "rb") as f:
        data = f.read()

    def run():
        if req["via"] == "path":
            import pathlib

            p = pathlib.Path(req["path"])
            return Chart.from_filepath(p) if sel is None else Chart.from_filepath(p, want_tracks=sel)
        kind = req.get("reader") or "stringio"
        if kind in ("textio", "codecs"):
            import codecs
            import io

            if kind == "textio":
                fp = io.TextIOWrapper(io.BufferedReader(io.BytesIO(data)),  # type: ignore[arg-type]
                                      encoding=req.get("encoding") or "utf-8",
                                      newline=req.get("newline"))
            else:
                fp = codecs.getreader(req.get("encoding") or "utf-8")(io.BytesIO(data))
        else:
            fp = simfs.make_reader(kind, data, encoding=req.get("encoding") or "utf-8",
                                   newline=req.get("newline"))
        return Chart.from_file(fp) if sel is None else Chart.from_file(fp, want_tracks=sel)

    if req.get("logging_off"):
        import logging

        logging.disable(logging.CRITICAL)
    try:
        out = outcome(run)
    finally:
        if req.get("logging_off"):
            logging.disable(logging.NOTSET)
    out["log"] = world.drain_log()
    return out


if __name__ == "__main__":
    import io

    # the protocol itself is UTF-8 whatever the flavour's locale / PYTHONIOENCODING says
    req = json.loads(sys.stdin.buffer.read().decode("utf-8"))
    out = json.dumps(compute(req), ensure_ascii=True)
    sys.stdout.buffer.write(out.encode("ascii"))
    sys.stdout.buffer.flush()
