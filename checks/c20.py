"""C20 — every module is importable first; import order does not matter.

One genuinely fresh interpreter per import history (PYTHONPATH = the working tree, compiled files
in this invocation's scratch, PYTHONHASHSEED from the plan).  Histories: every first-import and
every ordered pair exhaustively (ordered triples in the thorough tier), seeded longer
permutations, several import statement forms.  Oracle: the history succeeds, the remaining
modules import afterwards, the public-name/identity snapshot equals that of the canonical order
(chartparse.chart first), and a smoke parse yields the canonical observation digest.
"""

from __future__ import annotations

import itertools
import json
import os
import random
import subprocess
from typing import Any

from detsim import env, gen, rng

PROP = "C20"
LEVEL = "exploration"
IMPORT_FAILURE_IS_HARNESS_ERROR = False  # a tree whose canonical import fails is C20's to report
BUDGET_S = {"quick": 120, "thorough": 1500}
N_PERMS = {"quick": 64, "thorough": 3000}
N_FAULTS_PER_MODULE = {"quick": 8, "thorough": 160}
FORMS = ["importlib", "import", "from", "from_pkg"]
ASSUMPTIONS = [
    "the module list is discovered from chartparse/*.py at run time",
    "histories of length <= 2 (<= 3 thorough) are enumerated exhaustively in the 'importlib' "
    "form; other statement forms and longer permutations are seeded samples",
    "concurrent first-imports from two threads are not part of the property and are not judged",
    "interrupted-import histories read the statement as also covering an import attempt that was "
    "aborted by an asynchronous exception and retried: the aborted attempt itself may fail in "
    "any way, everything afterwards is judged like any other history",
]
EXHAUSTIVE = {"quick": False, "thorough": False}
RULE = ("each evaluation is one fresh interpreter executing one import history (then importing "
        "the remaining modules and snapshotting). Histories: all first-imports x 4 statement "
        "forms, all ordered pairs (all ordered triples in thorough), seeded full permutations "
        "with mixed forms. Distinct = distinct history; non-trivial = the history does not start "
        "with chartparse.chart (the one order the test suite uses). Fault-injected histories: "
        "the first import is interrupted by a KeyboardInterrupt at a seeded line event of the "
        "package's module/class bodies (8 points per module quick, 160 thorough), retried, and "
        "judged like any other history. Every import statement is also checked for what it bound")

_SMOKE_DOC = None
_CANON: dict[str, Any] | None = None


_ENV_KEYS: list[str] | None = None


def env_keys() -> list[str]:
    """Names of environment variables the package's source reads (found by scanning it)."""
    global _ENV_KEYS
    if _ENV_KEYS is None:
        import re

        pat = re.compile(r"""(?:environ(?:\.get)?\s*[\[(]|getenv\s*\()\s*["']([A-Za-z_][A-Za-z0-9_]*)["']""")
        found: set[str] = set()
        for f in sorted(os.listdir(env.PKG_DIR)):
            if f.endswith(".py"):
                with open(os.path.join(env.PKG_DIR, f), encoding="utf-8") as fh:
                    found.update(pat.findall(fh.read()))
        _ENV_KEYS = sorted(found)
    return _ENV_KEYS


def modules() -> list[str]:
    return sorted(f[:-3] for f in os.listdir(env.PKG_DIR) if f.endswith(".py") and f != "__init__.py")


def _histories(tier: str) -> list[list[list[str]]]:
    ms = modules()
    hs: list[list[list[str]]] = []
    for m in ms:
        for form in FORMS:
            hs.append([[m, form]])
    for a, b in itertools.permutations(ms, 2):
        hs.append([[a, "importlib"], [b, "importlib"]])
    if tier == "thorough":
        for t in itertools.permutations(ms, 3):
            hs.append([[x, "importlib"] for x in t])
    return hs


def runs(tier: str) -> int:
    return len(_histories(tier)) + N_PERMS[tier] + N_FAULTS_PER_MODULE[tier] * len(modules())


def smoke_text() -> str:
    r = random.Random(20)
    d = gen.gen_doc(r, headers=["ExpertSingle", "EasyDrums", "HardGHLCoop"], small=False)
    d["unknown"] = []
    return gen.render(d)


def make_plan(seed: int, tier: str, index: int) -> dict[str, Any]:
    hs = _histories(tier)
    r = rng.stream(seed, "plan")
    n_fault = N_FAULTS_PER_MODULE[tier] * len(modules())
    if index >= len(hs) + N_PERMS[tier]:
        # fault-injected history: the first import of the process is interrupted by an
        # asynchronous exception at a seeded line of the package's module/class bodies and then
        # retried (the interpreter drops the failed module; whatever the package's other modules
        # captured from it survives)
        ms = modules()
        j = index - len(hs) - N_PERMS[tier]
        m = ms[j % len(ms)]
        form = r.choice(FORMS)
        extra = [[x, r.choice(FORMS)] for x in r.sample([x for x in ms if x != m], r.choice([0, 0, 1, 2]))]
        return {"property": PROP, "seed": seed, "imports": [[m, form]] + extra,
                "kind": "interrupted-first-import",
                "fault": {"step": 0, "frac": r.random()}, "hashseed": r.randint(0, 2**31 - 1)}
    if index < len(hs):
        imports = hs[index]
        kind = f"enumerated-len{len(imports)}"
    else:
        ms = modules()
        r.shuffle(ms)
        k = r.choice([len(ms), len(ms), r.randint(3, len(ms))])
        imports = [[m, r.choice(FORMS)] for m in ms[:k]]
        kind = "seeded-permutation"
    plan = {"property": PROP, "seed": seed, "imports": imports, "kind": kind,
            "hashseed": r.randint(0, 2**31 - 1)}
    if index % 5 == 2:
        # warnings are errors and nothing is compiled yet (an empty private cache of compiled
        # files): whatever the compiler or the module bodies warn about stops the import
        plan["werror_cold"] = True
    if index % 9 == 4:
        # the imports are made by a worker thread (one thread, started and joined: a lazy import
        # in a pool worker), not by the main thread
        plan["in_thread"] = True
    if index % 7 == 6:
        # the interpreter is started without file descriptor 2 (sys.stderr is None: pythonw, GUI
        # and embedded hosts, daemons started with stderr closed)
        plan["no_stderr"] = True
    if index % 8 == 5 and "fault" not in plan:
        # the package is imported from a zip archive (zipapp / zipimport deployments): sources and
        # data files are inside the archive, __file__ names no real file
        plan["from_zip"] = True
    keys = env_keys()
    if keys and index % 3 == 1:
        # the process environment: every variable the package reads is present with an odd value
        plan["environ"] = {k: r.choice(["", "debug", "10", "0", "true", "x y", "DEBUG "]) for k in keys}
    return plan


_LINES: dict[str, int] = {}


def import_lines(module: str, form: str) -> int:
    """How many line events of the package's own files one first import executes (calibration
    probe with a fault that never fires)."""
    key = f"{module}/{form}"
    if key not in _LINES:
        got = _probe([[module, form]], 0, fault={"step": 0, "at": 10**9})
        _LINES[key] = int((got.get("fault") or {}).get("lines_seen") or 0)
    return _LINES[key]


_ZIP: str | None = None


def package_zip() -> str:
    """The working tree's package (every file of chartparse/, compiled files excluded) as a zip
    archive in this invocation's scratch."""
    global _ZIP
    if _ZIP is None or not os.path.exists(_ZIP):
        import zipfile

        path = os.path.join(env.scratch(), f"chartparse-{os.getpid()}.zip")
        with zipfile.ZipFile(path + ".tmp", "w") as z:
            for root, dirs, files in os.walk(env.PKG_DIR):
                dirs[:] = sorted(d for d in dirs if d != "__pycache__")
                for f in sorted(files):
                    if not f.endswith((".pyc", ".pyo")):
                        full = os.path.join(root, f)
                        z.write(full, os.path.join("chartparse", os.path.relpath(full, env.PKG_DIR)))
        os.replace(path + ".tmp", path)
        _ZIP = path
    return _ZIP


def _probe(imports: list[list[str]], hashseed: int, fault: dict[str, Any] | None = None,
           werror_cold: bool = False, environ: dict[str, str] | None = None,
           no_stderr: bool = False, in_thread: bool = False, from_zip: bool = False) -> dict[str, Any]:
    ms = modules()
    done = {m for m, _ in imports}
    rest = [m for m in ["chart"] + ms if m not in done]
    rest = list(dict.fromkeys(rest))
    req = {"imports": imports, "rest": rest, "smoke": smoke_text(), "fault": fault,
           "pkg_prefix": os.path.join(env.PKG_DIR, "")}
    import sys

    # the probe interpreters run in the configuration of this launcher's slice (python -O / -OO,
    # C locale): an import history must succeed in every one of them
    flags = ["-O"] * min(2, int(sys.flags.optimize))
    penv = env.fresh_interpreter_env(hashseed)
    from detsim.runner import SLICES

    penv.update((SLICES.get(os.environ.get("VERIF_SLICE_NAME") or "") or {}).get("env", {}))
    penv.update(environ or {})
    if from_zip:
        penv["PYTHONPATH"] = package_zip() + os.pathsep + env.VERIF_ROOT
    cold_dir = None
    if werror_cold:
        import tempfile

        cold_dir = tempfile.mkdtemp(prefix="pyc-cold-", dir=env.scratch())
        penv["PYTHONPYCACHEPREFIX"] = cold_dir
        req["werror"] = True
    targs = ["--in-thread"] if in_thread else []
    if no_stderr:
        p = subprocess.run([env.PYTHON] + flags + ["-m", "detsim.importprobe"] + targs, input=json.dumps(req),
                           stdout=subprocess.PIPE, text=True, timeout=150, env=penv, cwd=env.VERIF_ROOT,
                           encoding="utf-8", preexec_fn=lambda: os.close(2))
        p.stderr = ""
    else:
        p = subprocess.run([env.PYTHON] + flags + ["-m", "detsim.importprobe"] + targs, input=json.dumps(req),
                           capture_output=True, text=True, timeout=150,
                           env=penv, cwd=env.VERIF_ROOT, encoding="utf-8")
    if cold_dir:
        import shutil

        shutil.rmtree(cold_dir, ignore_errors=True)
    if p.returncode != 0 or not p.stdout.strip():
        return {"ok": False, "failed": {"module": "?", "form": "?", "phase": "interpreter",
                                        "type": "InterpreterExit", "step": -1,
                                        "msg": f"exit {p.returncode}: {p.stderr[-300:]}"}}
    return json.loads(p.stdout)


def canonical() -> dict[str, Any]:
    global _CANON
    if _CANON is None:
        _CANON = _probe([["chart", "importlib"]], 0)
    return _CANON


def prepare(tier: str, seed: int) -> None:
    canonical()
    package_zip()  # built once; the workers inherit the path
    # calibrate the fault space once, in the launcher (the workers inherit the table)
    from concurrent.futures import ThreadPoolExecutor

    pairs = [(m, f) for m in modules() for f in FORMS]
    with ThreadPoolExecutor(max_workers=16) as ex:
        list(ex.map(lambda mf: import_lines(*mf), pairs))


def execute(plan: dict[str, Any]) -> dict[str, Any]:
    canon = canonical()
    violations = []
    if not canon.get("ok"):
        f = canon["failed"]
        violations.append({"sig": f"C20/import-failed/{f['module']}/{f['type']}",
                           "detail": f"the canonical order (chartparse.chart first) fails: {f}"})
        got: dict[str, Any] = canon
    else:
        fault = None
        if plan.get("fault"):
            m0, f0 = plan["imports"][0]
            n = import_lines(m0, f0)
            if n <= 0:
                return {"violations": [], "digest": "no-lines", "evals": 1, "nontrivial": [],
                        "sub_batch": plan["kind"], "discarded": {"no-package-lines-in-import": 1}}
            fault = {"step": 0, "at": 1 + int(plan["fault"]["frac"] * n) % n}
        got = _probe(plan["imports"], plan["hashseed"], fault=fault,
                     werror_cold=bool(plan.get("werror_cold")), environ=plan.get("environ"),
                     no_stderr=bool(plan.get("no_stderr")), in_thread=bool(plan.get("in_thread")),
                     from_zip=bool(plan.get("from_zip")))
        hist = " -> ".join(f"{m}[{f}]" for m, f in plan["imports"])
        if fault is not None:
            fr = got.get("fault") or {}
            hist = (f"{plan['imports'][0][0]}[{plan['imports'][0][1]}] INTERRUPTED at package line "
                    f"event {fault['at']} ({fr.get('where')}), retried" +
                    "".join(f" -> {m}[{f}]" for m, f in plan["imports"][1:]))
        if not got.get("ok"):
            f = got["failed"]
            violations.append({
                "sig": f"C20/import-failed/{f['module']}/{f['type']}",
                "detail": f"history {hist}: importing chartparse.{f['module']} ({f['phase']}, "
                          f"step {f['step']}) raised {f['type']}: {f['msg']}"})
        else:
            interrupted = bool(plan.get("fault")) and bool((got.get("fault") or {}).get("fired"))
            if interrupted and not (got.get("fault") or {}).get("package_survived"):
                # the interrupt hit while the package's own __init__ was running: the interpreter
                # discards the package object and keeps finished sub-modules as orphans - every
                # Python package whose __init__ imports sub-modules behaves so.  Not judged.
                return {"violations": [], "digest": "package-discarded", "evals": 1, "nontrivial": [],
                        "sub_batch": plan["kind"], "ops": len(plan["imports"]),
                        "discarded": {"interrupt-discarded-the-package-object": 1},
                        "faults_fired": {"import_interrupted": 1},
                        "faults_configured": {"import_interrupted": 1}}
            if interrupted:
                # After an interrupted import the interpreter itself may leave the PACKAGE object
                # without attributes for sub-modules that had already finished (any package whose
                # __init__ imports sub-modules behaves so): the package's own row and what an
                # 'import a.b' statement finds on it are not judged in these histories.  Judged:
                # every later import succeeds, no module keeps an object of a discarded module
                # (identity), the other modules' names, the smoke parse.
                got = {**got, "misbound": [],
                       "names": {k: v for k, v in got["names"].items() if k != "chartparse"}}
                canon = {**canon, "names": {k: v for k, v in canon["names"].items() if k != "chartparse"}}
            for mb in (got.get("misbound") or [])[:1]:
                violations.append({
                    "sig": f"C20/import-bound-wrong-object/{mb['module']}/{mb['form']}",
                    "detail": f"history {hist}: step {mb['step']}: {mb['what']}"})
            if got["names"] != canon["names"]:
                diffs = []
                for mn in sorted(set(got["names"]) | set(canon["names"])):
                    a, b = got["names"].get(mn), canon["names"].get(mn)
                    if a != b:
                        ks = sorted(set(a or {}) ^ set(b or {})) or sorted(
                            k for k in (a or {}) if (a or {}).get(k) != (b or {}).get(k))
                        diffs.append(f"{mn}: {ks[:6]}")
                violations.append({"sig": "C20/names-differ",
                                   "detail": f"history {hist}: public bindings differ from the "
                                             f"canonical order: {diffs[:6]}"})
            elif got["identity"] != canon["identity"] or got["noncanonical"] != canon["noncanonical"]:
                violations.append({"sig": "C20/identity-differs",
                                   "detail": f"history {hist}: equally named bindings are not the "
                                             f"same objects as in the canonical order: "
                                             f"{[x for x in got['noncanonical'] if x not in canon['noncanonical']][:5]}"})
            if got.get("smoke") != canon.get("smoke"):
                violations.append({"sig": "C20/smoke-digest-differs",
                                   "detail": f"history {hist}: smoke parse {got.get('smoke')} != "
                                             f"canonical {canon.get('smoke')}"})
    first = plan["imports"][0][0]
    dig = rng.digest({"ok": got.get("ok"), "failed": got.get("failed"),
                      "names": rng.digest(got.get("names")), "identity": rng.digest(got.get("identity")),
                      "smoke": got.get("smoke"), "misbound": got.get("misbound"),
                      "fault": [(got.get("fault") or {}).get(k) for k in ("fired", "where", "outcome")], "v": [v["sig"] for v in violations]})
    n_bind = sum(len(v) for v in (got.get("names") or {}).values())
    return {
        "violations": violations,
        "digest": dig,
        "evals": 1,
        "nontrivial": [rng.digest(plan["imports"])] if first != "chart" else [],
        "counters": {"interpreters": 1, "public_bindings_compared": n_bind,
                     f"first_{first}": 1, f"len_{min(len(plan['imports']), 4)}{'+' if len(plan['imports']) > 4 else ''}": 1},
        "sub_batch": plan["kind"],
        "faults_fired": ({"import_interrupted": 1} if (got.get("fault") or {}).get("fired") else {}),
        "faults_configured": ({"import_interrupted": 1} if plan.get("fault") else {}),
        "knobs": {**({"warnings_as_errors_nothing_compiled_yet": 1} if plan.get("werror_cold") else {}),
                  **({"interpreter_started_without_stderr": 1} if plan.get("no_stderr") else {}),
                  **({"imports_made_by_a_worker_thread": 1} if plan.get("in_thread") else {}),
                  **({"package_imported_from_a_zip_archive": 1} if plan.get("from_zip") else {}),
                  **({"environment_variables_set_to_odd_values": 1} if plan.get("environ") else {})},
        "ops": len(plan["imports"]),
        "sample": {"imports": plan["imports"], "hashseed": plan["hashseed"]},
    }


def shrink(plan: dict[str, Any]):
    imps = plan["imports"]
    for i in range(len(imps)):
        if len(imps) > 1:
            yield {**plan, "imports": imps[:i] + imps[i + 1:]}
    for i, (m, f) in enumerate(imps):
        if f != "importlib":
            yield {**plan, "imports": imps[:i] + [[m, "importlib"]] + imps[i + 1:]}
    if plan.get("hashseed") != 0:
        yield {**plan, "hashseed": 0}


def evidence_extra(agg: Any, tier: str) -> dict[str, Any]:
    ms = modules()
    return {"modules": ms,
            "exhaustive_for": "all first-imports (x4 statement forms) and all ordered pairs"
                              + (" and all ordered triples" if tier == "thorough" else ""),
            "enumerated_histories": len(_histories(tier))}
