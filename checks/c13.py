"""C13 — track selection restricts the parse and tracks do not interfere (fault containment).

World: a chart with 2-6 instrument sections stored twice: undamaged (F) and with the body of ONE
instrument section replaced (D): garbage, foreign lines, another section's body, content that
makes the section invalid (never a bare brace or header line, which would legitimately re-frame
the file).  1-3 clients (concurrent under the scheduler in a quarter of the runs) parse F and D
with selections None / [] / () / singletons / subsets / supersets / pairs absent from the file.

Oracle: keys = (headers in file) ∩ selection (all if None); every returned undamaged track equals
(== and observation) the track of the undamaged unrestricted parse; metadata, sync track and
global events are identical; damaged-and-unselected => the parse must succeed and be identical;
damaged-and-selected => only the no-effect-on-others clause is judged.
"""

from __future__ import annotations

import copy
from typing import Any

from detsim import env, gen, minimize, rng, runner
from detsim.observe import (exc_token, observe_globals, observe_meta, observe_sync,
                            observe_track)
from detsim.runner import Discard
from detsim.sched import HarnessError, Scheduler, SimDeadlock, deadlock_result

PROP = "C13"
LEVEL = "exploration"
RUNS = {"quick": 4000, "thorough": 60000}
BUDGET_S = {"quick": 150, "thorough": 1500}
RULE = ("each evaluation is one parse of the undamaged or the damaged stored chart with one "
        "selection. Distinct = distinct (file text, selection) digest; non-trivial = the "
        "selection is not None or the file is the damaged one. The reference observation comes "
        "from a forked pristine process; nothing is parsed in the run process before the clients "
        "start (cold start); 12 % of the selecting operations use a selection object that raises "
        "on its k-th access")
ASSUMPTIONS = [
    "damage is confined to the byte range of one instrument section body and never contains a "
    "bare (unindented) brace or header line; indented ones are body content in this format",
    "the reference is the unrestricted parse of the undamaged file by the real parser in a "
    "process forked from the pristine image; the damaged section's own outcome is compared with "
    "its outcome as the only instrument section of the file",
    "an operation whose selection object raised may fail in any way; a chart it returns is judged "
    "like any other (may fail, never wrong data)",
    "selections and damage are sampled",
]

# body lines are rendered with the usual two-blank indentation, so "}" / "{" / "[...]" entries
# below end up as "  }" etc.: content of the body, not the bare structural lines of the format
GARBAGE = ["", "garbage", "= = =", "12 34 56", "0 = N 9 0", "0 = S 64 10", "7 = E two words",
           "0 = B 120000", "0 = TS 4", "0 = A 5", 'Resolution = 1', '3 = E "section x y"', "née 歌",
           "}", "{", "[ExpertSingle]", "[Song]", "} ", "0 = N 0 0", "3 = N 1 0"]


def _gen_damage(f: Any, doc: dict[str, Any], victim: int) -> tuple[str, list[str]]:
    kind = f.choice(["garbage", "garbage", "other_body", "foreign_sync", "invalid_forced_first",
                     "invalid_descending", "invalid_descending_shared", "empty",
                     "valid_other_content"])
    if kind == "garbage":
        return kind, [f.choice(GARBAGE) for _ in range(f.randint(1, 8))]
    if kind == "other_body":
        others = [i for i in range(len(doc["tracks"])) if i != victim]
        return kind, gen.track_lines(doc["tracks"][f.choice(others)])
    if kind == "foreign_sync":
        return kind, gen.sync_lines(doc) + gen.event_lines(doc)
    if kind == "invalid_forced_first":
        return kind, ["5 = N 0 0", "5 = N 5 0", "9 = N 1 0"]
    if kind == "invalid_descending":
        far = doc["tempos"][-1][0] + 10
        return kind, [f"{far} = N 0 0", "0 = N 1 0", f"{far} = E solo", "0 = E soloend",
                      f"{far} = S 2 5", "0 = S 2 5"]
    if kind == "invalid_descending_shared":
        # ticks going backwards across the tempo map, where the LOWER ticks are ticks that other
        # sections of the same file use too (whatever those sections left behind in shared
        # per-chart state must not decide whether this section is accepted)
        far = doc["tempos"][-1][0] + 10
        shared = sorted({gr["tick"] for i, tr in enumerate(doc["tracks"]) if i != victim
                         for gr in tr[1]} | {t for t, _, _ in doc["events"]})
        low = [t for t in shared if t < far] or [0]
        picks = sorted(f.sample(low, min(len(low), f.randint(1, 3))), reverse=True)
        return kind, [f"{far} = N 0 0"] + [f"{t} = N {f.randint(0, 4)} 0" for t in picks]
    if kind == "empty":
        return kind, []
    tr = gen.gen_track(f, doc["tracks"][victim][0], 17, doc["resolution"],
                       [gen.triplet_threshold(doc["resolution"])], 500, small=True)
    return kind, gen.track_lines(tr)


def _gen_selection(p: Any, present: list[str], victim: str) -> dict[str, Any] | None:
    absent = [h for h in gen.ALL_HEADERS if h not in present]
    x = p.random()
    form = p.choice(["list", "tuple"])
    if x < 0.15:
        return None
    if x < 0.25:
        return {"form": form, "pairs": []}
    if x < 0.45:
        return {"form": form, "pairs": [list(gen.HEADERS[p.choice(present)])]}
    if x < 0.6:
        others = [h for h in present if h != victim]
        k = p.randint(1, len(others)) if others else 0
        return {"form": form, "pairs": [list(gen.HEADERS[h]) for h in p.sample(others, k)]}
    if x < 0.75:
        k = p.randint(1, len(present))
        pairs = [list(gen.HEADERS[h]) for h in p.sample(present, k)]
        if p.random() < 0.25:
            pairs.append(list(pairs[0]))  # duplicates are legal in a Sequence
        return {"form": form, "pairs": pairs}
    if x < 0.9:
        k = p.randint(1, len(present))
        hs = p.sample(present, k) + p.sample(absent, p.randint(1, 3))
        p.shuffle(hs)
        return {"form": form, "pairs": [list(gen.HEADERS[h]) for h in hs]}
    return {"form": form, "pairs": [list(gen.HEADERS[h]) for h in p.sample(absent, p.randint(1, 3))]}


def make_plan(seed: int, tier: str, index: int) -> dict[str, Any]:
    g = rng.stream(seed, "gen")
    p = rng.stream(seed, "plan")
    f = rng.stream(seed, "fault")
    s = rng.stream(seed, "sched")
    k = g.randint(2, 6)
    headers = g.sample(gen.ALL_HEADERS, k)
    doc = gen.gen_doc(g, headers=headers, small=True)
    doc["unknown"] = []
    secs = gen.sections(doc)
    victim = f.randrange(k)
    vname = headers[victim]
    dkind, dbody = _gen_damage(f, doc, victim)
    dsecs = copy.deepcopy(secs)
    dsecs[3 + victim][1] = dbody
    if p.random() < 0.4:
        order = list(range(len(secs)))
        p.shuffle(order)
        secs = [secs[i] for i in order]
        dsecs = [dsecs[i] for i in order]
    n_clients = 1 if index % 4 != 3 else p.choice([2, 3])
    clients = []
    for _ in range(n_clients):
        ops = []
        for _ in range(p.randint(3, 7) if n_clients == 1 else p.randint(2, 4)):
            op = {"file": p.choice(["F", "D", "D"]), "select": _gen_selection(p, headers, vname)}
            x = p.random()
            if x < 0.25:
                op["via"] = "path"
            elif x < 0.35:
                op["via"] = "simtext"
                op["chunk"] = p.choice([1, 7, 13, 50, 257])
            if op["select"] is not None and f.random() < 0.12:
                # the caller's selection object fails on its k-th access of any kind with an
                # ordinary exception: the parse may fail, it must not return anything but the
                # selected tracks
                op["sel_fault"] = {"at": f.choice([1, 1, 2, 3, 5, 8]),
                                   "exc": f.choice(["TypeError", "ValueError", "KeyError",
                                                    "RuntimeError", "OSError"])}
            ops.append(op)
        clients.append(ops)
    schedule: dict[str, Any] = {"mode": "sequential", "seed": 0, "p_boundary": 0.0}
    if n_clients > 1:
        schedule = {"mode": "geometric", "seed": s.getrandbits(32), "gap": s.choice([5, 30, 200, 1000])}
        if s.random() < 0.35:
            schedule = {"mode": "writes", "seed": s.getrandbits(32), "p": s.choice([0.1, 0.3, 0.6]),
                        "hold": s.choice([20, 200, 1000, 4000])}
    solo = [sec for sec in dsecs if sec[0] in gen.REQUIRED or sec[0] == vname]
    return {"property": PROP, "seed": seed, "headers": headers, "victim": vname, "damage": dkind,
            "F": gen.render_sections(secs), "D": gen.render_sections(dsecs),
            "S": gen.render_sections(solo), "clients": clients, "schedule": schedule}


def _solo_outcome(text: str, victim: str) -> dict[str, Any]:
    from detsim import world

    try:
        ch = world.parse_text(text)
    except Exception as e:  # noqa: BLE001
        return {"kind": "exc", "type": type(e).__name__}
    for inst, dd in ch.instrument_tracks.items():
        for diff, tr in dd.items():
            if gen.PAIR_TO_HEADER[(inst.name, diff.name)] == victim:
                return {"kind": "ok", "track": rng.digest(observe_track(tr))}
    return {"kind": "ok", "track": None}


def _parse_via(fs: Any, plan: dict[str, Any], op: dict[str, Any], sel_rt: Any) -> Any:
    """The stored file is read from memory (default), by path - ONE path per file, opened again
    and again with different selections - or through a short-reading reader."""
    from chartparse.chart import Chart
    from detsim import simfs as _simfs
    from detsim import world

    via = op.get("via")
    text = plan[op["file"]]
    if via == "path":
        import pathlib

        p = fs.put("chart-" + op["file"] + ".chart", text.encode("utf-8"))
        if sel_rt is None:
            return Chart.from_filepath(pathlib.Path(p))
        return world.with_selection(sel_rt, lambda w: Chart.from_filepath(pathlib.Path(p), want_tracks=w))
    if via == "simtext":
        fp = _simfs.SimText(text, chunk=int(op.get("chunk") or 7))
        if sel_rt is None:
            return Chart.from_file(fp)
        return world.with_selection(sel_rt, lambda w: Chart.from_file(fp, want_tracks=w))
    return world.parse_text(text, sel_rt)


def _solo_in_pristine(solo_text: str, victim: str) -> dict[str, Any]:
    from detsim import world

    world.reference_process_state()
    return _solo_outcome(solo_text, victim)


def _reference_digests(text: str, solo_text: str | None = None, victim: str = "") -> dict[str, Any]:
    """Unrestricted parse of the undamaged file in a pristine process (forked grandchild), and
    the outcome of the damaged section when it is the only instrument section of its file."""
    from detsim import world

    world.reference_process_state()
    # each of the two references gets a pristine process of its own (this one for the undamaged
    # file, a further fork for the damaged section alone): neither may see what the other's parse
    # left behind in the process
    out = _reference_digests_inner(text)
    out["solo"] = None  # computed by the run process in a pristine fork of its own
    return out


def _reference_digests_inner(text: str) -> dict[str, Any]:
    from detsim import world

    try:
        ref = world.parse_text(text)
    except Exception as e:  # noqa: BLE001
        return {"error": type(e).__name__}
    tracks = {}
    for inst, dd in ref.instrument_tracks.items():
        for diff, tr in dd.items():
            tracks[gen.PAIR_TO_HEADER[(inst.name, diff.name)]] = rng.digest(observe_track(tr))
    return {"tracks": tracks,
            "shared": rng.digest([observe_meta(ref.metadata), observe_sync(ref.sync_track),
                                  observe_globals(ref.global_events_track)])}


def _shape(sel: Any, present: list[str]) -> str:
    if sel is None:
        return "none"
    if not sel["pairs"]:
        return "empty"
    hs = [gen.PAIR_TO_HEADER[tuple(x)] for x in sel["pairs"]]
    inside = [h for h in hs if h in present]
    if not inside:
        return "absent"
    if len(inside) < len(hs):
        return "superset"
    return "subset"


def execute(plan: dict[str, Any]) -> dict[str, Any]:
    from detsim import world

    world.install_log_sink()
    headers = plan["headers"]
    victim = plan["victim"]
    violations: list[dict[str, Any]] = []
    # The reference observation comes from a process forked from this still-pristine image, and
    # nothing is parsed here before the clients start: the FIRST parse of the process is then one
    # of the (possibly concurrent) client parses, so lazily initialised process-wide state is
    # exercised cold.  All judging happens after the simulation.
    try:
        refd = runner.in_fork(_reference_digests, plan["F"], plan.get("S"), victim, timeout=120)
    except runner.ChildFailure as e:
        return {"violations": [], "digest": "", "evals": 1,
                "harness_error": f"reference computation failed: {e}"}
    if "error" in refd:
        raise Discard("undamaged-file-rejected:" + refd["error"])
    if plan.get("S") is not None:
        try:
            refd["solo"] = runner.in_fork(_solo_in_pristine, plan["S"], victim, timeout=100)
        except runner.ChildFailure as e:
            return {"violations": [], "digest": "", "evals": 1,
                    "harness_error": f"reference computation failed: {e}"}
    ref_track_dig = refd["tracks"]
    ref_shared = refd["shared"]
    ref_tracks: dict[str, Any] = {}
    if sorted(ref_track_dig) != sorted(headers):
        violations.append({"sig": "C13/missing-key/none/reference",
                           "detail": f"unrestricted parse has {sorted(ref_track_dig)}, file has {sorted(headers)}"})
    world.drain_log()
    n_clients = len(plan["clients"])
    import os as _os

    from detsim import simfs as _simfs

    fs = _simfs.SimFS(_os.path.join(env.scratch(), "simfs", f"run-{_os.getpid()}"))
    fs.install()
    sched = Scheduler(plan["schedule"], n_clients, env.PKG_DIR,
                      preempt_lines=not env.package_uses_locks_or_threads())
    nontrivial = []
    fired: dict[str, int] = {}
    counters: dict[str, int] = {}
    n_ops = 0

    def judge(ci: int, k: int, op: dict[str, Any], chart: Any, err: BaseException | None) -> None:
        sel = op["select"]
        shape = _shape(sel, headers)
        damaged = op["file"] == "D"
        want = set(headers) if sel is None else {
            gen.PAIR_TO_HEADER[tuple(x)] for x in sel["pairs"]} & set(headers)
        victim_selected = damaged and victim in want
        tagp = f"client {ci} op {k} file {op['file']} select {shape}"
        solo = refd.get("solo")
        if victim_selected and solo is not None:
            # the damaged section's OWN outcome must not depend on the other sections of the file:
            # it equals the outcome when that section is the only instrument section
            if err is not None:
                mine: dict[str, Any] = {"kind": "exc", "type": type(err).__name__}
            else:
                vt = None
                for inst, dd in chart.instrument_tracks.items():
                    for diff, tr in dd.items():
                        if gen.PAIR_TO_HEADER[(inst.name, diff.name)] == victim:
                            vt = rng.digest(observe_track(tr))
                mine = {"kind": "ok", "track": vt}
            counters["victim_outcome_vs_solo"] = counters.get("victim_outcome_vs_solo", 0) + 1
            if mine != solo:
                violations.append({"sig": f"C13/section-outcome-depends-on-others/{shape}/{plan['damage']}",
                                   "detail": f"{tagp}: section [{victim}] (damage={plan['damage']}) gives {mine} "
                                             f"in this file but {solo} when it is the only instrument "
                                             "section of the file"})
                return
        if err is not None:
            if victim_selected:
                counters["damaged_selected_raised"] = counters.get("damaged_selected_raised", 0) + 1
                return
            sym = "unselected-damage-visible" if damaged else "parse-failed"
            violations.append({"sig": f"C13/{sym}/{shape}/{type(err).__name__}",
                               "detail": f"{tagp}: raised {exc_token(err)}; damage={plan['damage']} in "
                                         f"[{victim}] which is {'not ' if not victim_selected else ''}selected"})
            return
        got = {}
        for inst, dd in chart.instrument_tracks.items():
            for diff, tr in dd.items():
                got[gen.PAIR_TO_HEADER[(inst.name, diff.name)]] = tr
        extra = sorted(set(got) - want)
        missing = sorted(want - set(got))
        if extra:
            violations.append({"sig": f"C13/extra-key/{shape}/-",
                               "detail": f"{tagp}: returned unselected/absent tracks {extra}"})
            return
        if missing:
            violations.append({"sig": f"C13/missing-key/{shape}/-",
                               "detail": f"{tagp}: selected tracks {missing} exist in the file but "
                                         "were not returned"})
            return
        for h, tr in got.items():
            if damaged and h == victim:
                continue
            same = rng.digest(observe_track(tr)) == ref_track_dig[h]
            if h in ref_tracks:  # the library's own == against a local unrestricted parse
                try:
                    same = same and bool(tr == ref_tracks[h]) and bool(ref_tracks[h] == tr)
                except BaseException:  # noqa: BLE001
                    same = False
            if not same:
                sym = "track-differs" if not damaged else (
                    "unselected-damage-visible" if not victim_selected else "track-differs")
                violations.append({"sig": f"C13/{sym}/{shape}/-",
                                   "detail": f"{tagp}: track {h} differs from the undamaged "
                                             f"unrestricted parse (damage={plan['damage']} in [{victim}])"})
                return
        if sel is not None and shape in ("superset", "absent") and not op.get("sel_fault"):
            # naming pairs that the file does not have changes nothing: same keys (an empty entry
            # for an instrument is a key), same chart as with the present pairs only
            present_only = {**sel, "pairs": [x for x in sel["pairs"]
                                             if gen.PAIR_TO_HEADER[tuple(x)] in set(headers)]}
            try:
                alt = world.parse_text(plan[op["file"]], present_only)
                k1 = [i.name for i in chart.instrument_tracks]
                k2 = [i.name for i in alt.instrument_tracks]
                same_keys = sorted(k1) == sorted(k2)
                same_eq = bool(chart == alt) and bool(alt == chart)
            except Exception:  # noqa: BLE001 - the damaged selected section may raise: judged above
                same_keys = same_eq = True
                k1 = k2 = []
            counters["absent_pairs_vs_present_only"] = counters.get("absent_pairs_vs_present_only", 0) + 1
            if not (same_keys and same_eq):
                violations.append({"sig": f"C13/absent-pairs-visible/{shape}/-",
                                   "detail": f"{tagp}: the selection names pairs the file does not have; "
                                             f"instrument keys {k1} vs {k2} with the present pairs only "
                                             f"(charts equal: {same_eq})"})
                return
        shared = rng.digest([observe_meta(chart.metadata), observe_sync(chart.sync_track),
                             observe_globals(chart.global_events_track)])
        if shared != ref_shared:
            violations.append({"sig": f"C13/shared-differs/{shape}/-",
                               "detail": f"{tagp}: metadata / sync track / global events differ from "
                                         "the undamaged unrestricted parse"})

    def body_for(ci: int) -> Any:
        ops = plan["clients"][ci]

        def body(client: Any) -> None:
            nonlocal n_ops
            for k, op in enumerate(ops):
                sched.begin_op(client, k)
                chart = None
                err: BaseException | None = None
                sel_rt = op["select"]
                sf = op.get("sel_fault")
                if sf and sel_rt is not None:
                    exc_obj = {"TypeError": TypeError, "ValueError": ValueError, "KeyError": KeyError,
                               "RuntimeError": RuntimeError, "OSError": OSError}[sf["exc"]](
                        "injected: the caller's selection object failed")
                    sel_rt = {**sel_rt, "fault": {"at": sf["at"], "exc_obj": exc_obj}}
                try:
                    chart = _parse_via(fs, plan, op, sel_rt)
                except HarnessError:
                    raise
                except Exception as e:  # noqa: BLE001
                    err = e
                mutated = world.selection_was_mutated()
                sel_fault_fired = bool(sf) and world.selection_fault_fired()
                sched.end_op(client)
                n_ops += 1
                with sched.atomic(client):
                    sched.record("op", ci, k, "exc" if err else "ok")
                    if mutated:
                        violations.append({"sig": f"C13/selection-mutated/{_shape(op['select'], headers)}/-",
                                           "detail": f"client {ci} op {k}: the caller's selection object was "
                                                     "modified by the parse (a second parse with the same "
                                                     "object would select something else)"})
                    if op["select"] is not None or op["file"] == "D":
                        nontrivial.append(rng.digest([plan[op["file"]], op["select"]]))
                    if op["file"] == "D":
                        fired["region_replace:" + plan["damage"]] = fired.get(
                            "region_replace:" + plan["damage"], 0) + 1
                    sk = "select:" + _shape(op["select"], headers)
                    counters[sk] = counters.get(sk, 0) + 1
                    if sel_fault_fired:
                        fired["selection_object_raises"] = fired.get("selection_object_raises", 0) + 1
                        if err is not None:
                            continue  # may fail (relaxed oracle under an injected fault) ...
                        counters["selection_fault_swallowed"] = counters.get("selection_fault_swallowed", 0) + 1
                    pending.append((ci, k, op, chart, err))  # ... never wrong data
        return body

    harness_error = None
    pending: list[Any] = []
    try:
        sched.run([body_for(i) for i in range(n_clients)])
    except SimDeadlock as e:
        # threads / locks the library made itself, all of them scheduled by the simulator:
        # under this schedule a call never returns (its reference does)
        return deadlock_result(PROP, e, sched)
    except HarnessError as e:
        harness_error = str(e)
    finally:
        fs.uninstall()
        import shutil as _shutil

        _shutil.rmtree(fs.root, ignore_errors=True)
    if harness_error is None:
        # local unrestricted parse, made AFTER the simulation, only for the library's own ==; it is
        # used only if it is observably the pristine reference (otherwise this process's history
        # has changed what a parse returns, which is C17's to report, not C13's)
        try:
            late = world.parse_text(plan["F"])
            for inst, dd in late.instrument_tracks.items():
                for diff, tr in dd.items():
                    h = gen.PAIR_TO_HEADER[(inst.name, diff.name)]
                    if rng.digest(observe_track(tr)) == ref_track_dig.get(h):
                        ref_tracks[h] = tr
        except Exception:  # noqa: BLE001
            ref_tracks.clear()
        counters["eq_reference_tracks"] = len(ref_tracks)
        for ci, k, op, chart, err in sorted(pending, key=lambda x: (x[0], x[1])):
            judge(ci, k, op, chart, err)
    world.drain_log()
    sched.record("violations", [v["sig"] for v in violations])
    return {
        "violations": violations[:4],
        "digest": sched.events.hexdigest()[:32],
        "evals": n_ops + 1,
        "nontrivial": nontrivial,
        "faults_fired": fired,
        "counters": counters,
        "sim_steps": sched.global_step,
        "ops": n_ops,
        "switches": sched.switches,
        "mid_op_switches": sched.mid_op_switches,
        "interleaving": sched.interleaving.hexdigest()[:32] if n_clients > 1 else None,
        "sched_mode": sched.mode,
        "sub_batch": "concurrent" if n_clients > 1 else "single-client",
        "sample": {"headers": headers, "victim": victim, "damage": plan["damage"],
                   "clients": [[{"file": o["file"], "select": o["select"]} for o in ops[:4]]
                               for ops in plan["clients"]]},
        "harness_error": harness_error,
        "explicit_schedule": sched.explicit_schedule(),
    }


def shrink(plan: dict[str, Any]):
    clients = plan["clients"]
    if len(clients) > 1:
        for i in range(len(clients)):
            yield {**plan, "clients": clients[:i] + clients[i + 1:]}
    for ci, ops in enumerate(clients):
        if len(ops) > 1:
            for i in range(len(ops)):
                yield {**plan, "clients": clients[:ci] + [ops[:i] + ops[i + 1:]] + clients[ci + 1:]}
    for ci, ops in enumerate(clients):
        for i, op in enumerate(ops):
            if op.get("sel_fault"):
                op2 = {a: b for a, b in op.items() if a != "sel_fault"}
                yield {**plan, "clients": clients[:ci] + [ops[:i] + [op2] + ops[i + 1:]] + clients[ci + 1:]}
    yield from minimize.shrink_schedule(plan)
