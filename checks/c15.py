"""C15 — untrustworthy tempo data is rejected loudly, never turned into times (fault enumeration).

For each seeded chart EVERY single corruption of the sync data at EVERY position is applied to the
stored file and the parse is judged by the exact rule of the property:

  must raise ValueError : resolution 0; no tempo at tick 0 (dropped / shifted); no time signature
                          at tick 0 (dropped / shifted); tempo ticks not strictly increasing
                          (duplicate tick at each k, every swapped pair of tempo lines);
                          tempo k = 0 while some event (incl. the next tempo event, a note end)
                          is governed by tempo k
  not judged (may parse): tempo k = 0 that governs nothing; when the parse succeeds every query
                          governed by k must raise ValueError and every other timestamp must be
                          unchanged (rejecting such a chart is allowed by the statement)
  always                : timestamp_at_tick(-1) raises ValueError on every parsed chart
  unspecified           : the tick-0 signature moved behind another one (a signature at tick 0
                          exists but is not first in the file): ValueError or success are both
                          accepted, any other exception type is not
"""

from __future__ import annotations

import copy
import itertools
from typing import Any

from detsim import env, gen, rng
from detsim.observe import exc_token, us
from detsim.runner import Discard
from detsim.sched import caller_boundary

PROP = "C15"
LEVEL = "fault_enumeration"
RUNS = {"quick": 6000, "thorough": 120000}
BUDGET_S = {"quick": 150, "thorough": 1500}
EXHAUSTIVE = {"quick": False, "thorough": False}
PAIRS_PER_CHART = {"quick": 16, "thorough": 120}  # ordered pairs of faults, sampled above this
RULE = ("each run takes one seeded well-formed chart and enumerates every single corruption of "
        "its sync data at every position (kind x position) plus ordered PAIRS of such corruptions "
        "(all of them up to a per-chart cap, a seeded sample above it); each evaluation is one "
        "corrupted file parsed once plus the probing queries; the expected verdict of every file "
        "is computed from the stored sync body by the trust-rule predicate. Distinct = distinct (chart, corruption) digest; "
        "non-trivial = the corruption changed the stored bytes (all enumerated ones do) ")
ASSUMPTIONS = [
    "exhaustive over (corruption kind x position) per chart for single faults; ordered pairs of "
    "faults are enumerated up to a per-chart cap and sampled above it; charts themselves are "
    "seeded samples",
    "the sync trust rule (five rejection conditions + zero-tempo governing rule) is the harness' "
    "executable reading of the property statement",
    "a tick-0 signature that exists but is not first in the file is treated as unspecified",
    "the statement only demands rejection; a tree that rejects MORE (e.g. a zero tempo that governs "
    "nothing, or the well-formed base chart) is never reported: such cases are counted/discarded",
]


def make_plan(seed: int, tier: str, index: int) -> dict[str, Any]:
    g = rng.stream(seed, "gen")
    # (a third of the charts have up to five instrument sections: what happens to the REST of a
    # load after one section was rejected)
    doc = gen.gen_doc(g, max_tracks=5 if index % 3 == 1 else 2, small=g.random() < 0.5)
    doc["unknown"] = []
    if index % 25 == 7:
        # a long tempo map (thresholds that small maps never reach); corruptions are sampled
        while len(doc["tempos"]) < 18 + (index % 23):
            last_t = doc["tempos"][-1][0]
            doc["tempos"].append([last_t + g.choice([1, 2, doc["resolution"], 3 * doc["resolution"] + 1]),
                                  g.choice(gen.BPM_POOL)])
    if g.random() < 0.3:
        # anchors that sit exactly on tempo changes (an anchored tempo change is still only as
        # trustworthy as the tempo before it)
        have = {t for t, _ in doc["anchors"]}
        for t, _b in doc["tempos"]:
            if t not in have and g.random() < 0.6:
                doc["anchors"].append([t, g.randint(0, 9_000_000)])
        doc["anchors"].sort()
    if g.random() < 0.35:
        # a trailing tempo event that governs nothing (so that "zero tempo, unused" occurs)
        far = max_tick(doc) + g.choice([1, 10, doc["resolution"], 5000])
        doc["tempos"].append([far, g.choice(gen.BPM_POOL)])
    singles = enumerate_corruptions(doc)
    f = rng.stream(seed, "fault")
    if len(singles) > 120:
        # long tempo map: keep every kind, sample the positions
        head = [c for c in singles if c["kind"] not in ("swap_tempo", "dup_tempo_tick", "zero_tempo")]
        rest = [c for c in singles if c["kind"] in ("swap_tempo", "dup_tempo_tick", "zero_tempo")]
        singles = head + [rest[i] for i in sorted(f.sample(range(len(rest)), 100))]
    real = [c for c in singles if c["kind"] != "none"]
    pairs = [{"kind": "pair", "steps": [a, b]} for a, b in itertools.permutations(real, 2)]
    cap = PAIRS_PER_CHART[tier]
    if len(pairs) > cap:
        pairs = [pairs[i] for i in sorted(f.sample(range(len(pairs)), cap))]
    plan = {"property": PROP, "seed": seed, "doc": doc, "corruptions": singles + pairs,
            "retry_mod": f.choice([2, 3, 5]), "retry_off": f.randrange(5)}
    if index % 12 == 5:
        # every corrupted variant of this chart also carries a run of unparsable lines in its
        # sync section (thresholds on "too many unparsable lines")
        plan["sync_junk"] = {"n": 17 + (index // 12) % 60, "kind": index % 8, "stride": 1 + index % 3,
                             "pos": (index // 12) % 5}
    if f.random() < 0.25:
        # the stored file is read through a reader whose sized reads / readline return short
        # (legal); a correct tree reads it all the same
        plan["reader_chunk"] = f.choice([1, 7, 13, 64, 257])
    return plan


def governed_ticks(doc: dict[str, Any]) -> list[int]:
    """Every tick whose time chartparse computes through the tempo map while parsing."""
    ticks = [t for t, _, _ in doc["tsigs"]]
    ticks += [t for t, _, _ in doc["events"]]
    for _h, groups, sp, ev in doc["tracks"]:
        for gr in groups:
            s = gr["sus"]
            longest = s if isinstance(s, int) else max(s)
            ticks += [gr["tick"], gr["tick"] + longest]
        ticks += [t for t, _ in sp]
        ticks += [t for t, _ in ev]
    return ticks


def max_tick(doc: dict[str, Any]) -> int:
    return max(governed_ticks(doc) + [t for t, _ in doc["tempos"]] + [t for t, _ in doc["anchors"]])


def governing_index(tempo_ticks: list[int], t: int) -> int:
    g = -1
    for i, tt in enumerate(tempo_ticks):
        if tt <= t:
            g = i
    return g


def enumerate_corruptions(doc: dict[str, Any]) -> list[dict[str, Any]]:
    n_t = len(doc["tempos"])
    n_s = len(doc["tsigs"])
    last = max_tick(doc)
    mid = max(1, last // 2)
    out: list[dict[str, Any]] = [{"kind": "none"}, {"kind": "res0"}, {"kind": "drop_tempo0"}]
    for t in sorted({1, mid, last + 1}):
        out.append({"kind": "shift_tempo0", "to": t})
    out.append({"kind": "drop_ts0"})
    for t in sorted({1, mid, last + 1}):
        out.append({"kind": "shift_ts0", "to": t})
    for j in range(1, n_s):
        out.append({"kind": "move_ts0_behind", "j": j})
    for k in range(1, n_t):
        out.append({"kind": "dup_tempo_tick", "k": k})
    for i, j in itertools.combinations(range(n_t), 2):
        out.append({"kind": "swap_tempo", "i": i, "j": j})
    for k in range(n_t):
        out.append({"kind": "zero_tempo", "k": k})
    return out


def _retick(line: str, t: int) -> str:
    return f"{t} = " + line.split(" = ", 1)[1]


def apply_step(sync: list[str], c: dict[str, Any]) -> bool:
    """Apply one corruption to the sync body in place; False when it does not apply (any more)."""
    k = c["kind"]
    b_idx = [i for i, ln in enumerate(sync) if " = B " in ln]
    ts_idx = [i for i, ln in enumerate(sync) if " = TS " in ln]
    if k == "drop_tempo0":
        if not b_idx:
            return False
        del sync[b_idx[0]]
    elif k == "shift_tempo0":
        if not b_idx:
            return False
        sync[b_idx[0]] = _retick(sync[b_idx[0]], c["to"])
    elif k == "drop_ts0":
        if not ts_idx:
            return False
        del sync[ts_idx[0]]
    elif k == "shift_ts0":
        if not ts_idx:
            return False
        sync[ts_idx[0]] = _retick(sync[ts_idx[0]], c["to"])
    elif k == "move_ts0_behind":
        if c["j"] >= len(ts_idx):
            return False
        line = sync[ts_idx[0]]
        tgt = ts_idx[c["j"]]
        sync.insert(tgt + 1, line)
        del sync[ts_idx[0]]
    elif k == "dup_tempo_tick":
        if c["k"] >= len(b_idx):
            return False
        prev_tick = int(sync[b_idx[c["k"] - 1]].split(" = ")[0])
        sync[b_idx[c["k"]]] = _retick(sync[b_idx[c["k"]]], prev_tick)
    elif k == "swap_tempo":
        if c["j"] >= len(b_idx):
            return False
        a, b = b_idx[c["i"]], b_idx[c["j"]]
        sync[a], sync[b] = sync[b], sync[a]
    elif k == "zero_tempo":
        if c["k"] >= len(b_idx):
            return False
        tick = int(sync[b_idx[c["k"]]].split(" = ")[0])
        sync[b_idx[c["k"]]] = f"{tick} = B 0"
    else:
        raise ValueError(k)
    return True


def classify(doc: dict[str, Any], sync: list[str], res0: bool) -> tuple[str, dict[str, Any]]:
    """The sync trust rule as a predicate on the stored sync body (whatever faults produced it).

    must-raise : resolution 0; tempo ticks (file order) empty / not starting at 0 / not strictly
                 increasing; no time signature at tick 0; a zero tempo that governs an event, a
                 note end or a later tempo event
    unspecified: a tick-0 signature exists but is not the first signature line
    may-parse  : a zero tempo that governs nothing
    ok         : none of the above (the map is trustworthy; nothing is demanded either way)"""
    if res0:
        return "must-raise", {}
    tempos = []
    for ln in sync:
        if " = B " in ln:
            a, b = ln.strip().split(" = B ")
            tempos.append((int(a), int(b)))
    ts_ticks = [int(ln.strip().split(" = ")[0]) for ln in sync if " = TS " in ln]
    tt = [t for t, _ in tempos]
    if not tt or tt[0] != 0 or any(b <= a for a, b in zip(tt, tt[1:])):
        return "must-raise", {}
    if 0 not in ts_ticks:
        return "must-raise", {}
    label = "ok"
    info: dict[str, Any] = {}
    gt = governed_ticks(doc)
    for k, (tick, bpm) in enumerate(tempos):
        if bpm == 0:
            uses = k + 1 < len(tempos) or any(governing_index(tt, t) == k for t in gt)
            if uses:
                return "must-raise", {}
            label = "may-parse"
            info = {"zero_k": k, "zero_from": tick}
    if ts_ticks[0] != 0:
        return "unspecified", info
    return label, info


SYNC_JUNK = ["", "  free text", "  {t} = N 8 0", "  {t} = S 64 10", "  {t} = E two words", "  100% {t} %s",
             "  {t} = Q 1 2", "\t{t} = N 0 0"]  # no sync kind claims any of these


def apply_corruption(doc: dict[str, Any], c: dict[str, Any],
                     junk: dict[str, Any] | None = None) -> tuple[str, str, dict[str, Any]]:
    """-> (text, expected label, info).  Labels: base / must-raise / may-parse / unspecified /
    ok / n-a (a second fault that no longer applies)."""
    d = copy.deepcopy(doc)
    if c["kind"] == "none":
        return gen.render(d), "base", {}
    steps = c["steps"] if c["kind"] == "pair" else [c]
    res0 = False
    sync = gen.sync_lines(d)
    for st in steps:
        if st["kind"] == "res0":
            res0 = True
        elif not apply_step(sync, st):
            return "", "n-a", {}
    if res0:
        d["meta"] = [[a, ("0" if a == "Resolution" else b)] for a, b in d["meta"]]
    label, info = classify(d, sync, res0)
    if junk:
        # storage fault on top: a run of unparsable lines (skipped and reported, by C14) after the
        # first ``pos`` sync lines - they change nothing about what the tempo data says, so the
        # verdict demanded for the file is the same (a dispatcher that gives up on a noisy
        # section never sees the corruption behind the noise)
        lines = [SYNC_JUNK[(junk["kind"] + i * junk["stride"]) % len(SYNC_JUNK)].replace("{t}", str(7 * i))
                 for i in range(junk["n"])]
        pos = min(junk["pos"], len(sync))
        sync = sync[:pos] + lines + sync[pos:]
    secs = gen.sections(d)
    secs[1][1] = sync
    return gen.render_sections(secs), label, info


def _concurrent_queries(chart: Any, base_chart: Any, zf: int, probe_ticks: list[int], seed: int) -> str | None:
    from detsim import simthreads as _st

    if _st.ACTIVE is not None:
        return None  # already inside a simulation (a tree whose library runs threads): not nested
    """Two reader threads query one chart whose last tempo is zero, under the deterministic
    scheduler: every query at or after the zero tempo raises ValueError, every other one returns
    what the uncorrupted chart returns."""
    import random

    from detsim import env
    from detsim.sched import HarnessError, Scheduler

    r = random.Random(seed)
    be = chart.sync_track.bpm_events
    bbe = base_chart.sync_track.bpm_events
    early = [t for t in probe_ticks if 0 <= t < zf] or [0]
    late = [zf, zf + 1, zf + 7, zf + 100000]
    clients = [[r.choice(late) if r.random() < 0.5 else r.choice(early) for _ in range(r.randint(4, 8))]
               for _ in range(2)]
    schedule = r.choice([{"mode": "geometric", "seed": r.getrandbits(32), "gap": r.choice([1, 2, 3, 5])},
                         {"mode": "writes", "seed": r.getrandbits(32), "p": 0.9, "hold": r.choice([5, 20, 60])}])
    sched = Scheduler(schedule, 2, env.PKG_DIR, preempt_lines=not env.package_uses_locks_or_threads())
    bad: list[str] = []

    def body_for(ci: int) -> Any:
        def body(client: Any) -> None:
            for k, t in enumerate(clients[ci]):
                sched.begin_op(client, k)
                try:
                    got: Any = us(be.timestamp_at_tick_no_optimize_return(t))
                except HarnessError:
                    raise
                except ValueError:
                    got = "ValueError"
                except BaseException as e:  # noqa: BLE001
                    got = "raised " + type(e).__name__
                sched.end_op(client)
                with sched.atomic(client):
                    if t >= zf:
                        if got != "ValueError" and not bad:
                            bad.append(f"query for tick {t} (governed by the zero tempo) gave {got}")
                    else:
                        want = us(bbe.timestamp_at_tick_no_optimize_return(t))
                        if got != want and not bad:
                            bad.append(f"query for tick {t} gave {got}, uncorrupted chart {want}")
        return body

    try:
        sched.run([body_for(0), body_for(1)])
    except HarnessError:
        return None
    return bad[0] if bad else None


def _parse_replaced_path(first: str, second: str) -> Any:
    import os
    import pathlib
    import shutil

    from chartparse.chart import Chart
    from detsim import env, simfs

    fs = simfs.SimFS(os.path.join(env.scratch(), "simfs", f"c15-{os.getpid()}"))
    fs.install()
    try:
        p = fs.put("song.chart", first.encode("utf-8"))
        Chart.from_filepath(pathlib.Path(p))
        fs.put("song.chart", second.encode("utf-8"))
        return Chart.from_filepath(pathlib.Path(p))
    finally:
        fs.uninstall()
        shutil.rmtree(fs.root, ignore_errors=True)


def _parse(text: str, chunk: int | None) -> Any:
    from detsim import simfs, world

    if not chunk:
        return world.parse_text(text)
    from chartparse.chart import Chart

    return Chart.from_file(simfs.SimText(text, chunk=chunk))


def execute(plan: dict[str, Any]) -> dict[str, Any]:
    if not env.package_makes_threads():
        return _execute_inner(plan)
    # a tree whose library runs threads of its own: the whole sequence of loads and queries is
    # ONE simulated caller, so that those threads are scheduled by the simulator (a warmer thread
    # racing with a query, a helper thread that never lets a failing load return)
    from detsim.sched import as_one_caller

    return as_one_caller(PROP, lambda: _execute_inner(plan), int(plan["seed"]), env.PKG_DIR,
                         preempt_lines=not env.package_uses_locks_or_threads())


def _execute_inner(plan: dict[str, Any]) -> dict[str, Any]:
    import hashlib

    from detsim import world

    world.install_log_sink()
    ev = hashlib.sha256()
    doc = plan["doc"]
    violations: list[dict[str, Any]] = []
    fired: dict[str, int] = {}
    counters = {"must_raise": 0, "may_parse": 0, "base": 0, "unspecified": 0, "queries": 0,
                "may_parse_parsed": 0, "ok": 0, "n_a": 0, "pairs": 0, "pairs_must_raise": 0, "retries": 0,
                "healthy_then_dropped_histories": 0, "carrier_chart_histories": 0,
                "replaced_in_place_by_path": 0,
                "concurrent_query_sessions": 0,
                "short_reading_reader": 1 if plan.get("reader_chunk") else 0}
    nontrivial = []
    base_chart = None
    base_text = None
    tempo_ticks = [t for t, _ in doc["tempos"]]
    probe_ticks = sorted(set(tempo_ticks + [t + 1 for t in tempo_ticks] + governed_ticks(doc)
                             + [0, max_tick(doc) + 7]))
    for ci_, c in enumerate(plan["corruptions"]):
        text, label, info = apply_corruption(doc, c, plan.get("sync_junk") if c["kind"] != "none" else None)
        kind = c["kind"]
        counters[label.replace("-", "_")] += 1
        if label == "n-a":
            continue  # the second fault of a pair no longer applies after the first
        if kind == "pair":
            kind = "+".join(st["kind"] for st in c["steps"])
            fired["pair"] = fired.get("pair", 0) + 1
            counters["pairs"] += 1
            counters["pairs_must_raise"] += 1 if label == "must-raise" else 0
        else:
            fired[kind] = fired.get(kind, 0) + 1
        if kind != "none":
            nontrivial.append(rng.digest([text]))
        chart = None
        be = None
        err: BaseException | None = None
        if label == "may-parse" and "zero_from" in info and base_text is not None:
            # history: the healthy chart is loaded, asked for the very ticks that the zero tempo
            # will govern, and dropped - then the edited file is loaded and asked again (whatever
            # the first object's answers left behind in the process must not answer for the
            # second).  Repeated under several allocator shifts, so that whether the second tempo
            # map receives the first one's address does not hinge on the inherited heap state.
            zf0 = info["zero_from"]
            qticks = [zf0, zf0 + 1, zf0 + 100000] + [t for t in probe_ticks if t >= zf0]
            for j in (0, 1, 2, 3, 4, 5, 6, 8, 11, 16):
                try:
                    tmp = _parse(base_text, None)
                    tbe = tmp.sync_track.bpm_events
                    for t in qticks:
                        tbe.timestamp_at_tick_no_optimize_return(t)
                        tbe.timestamp_at_tick(t)
                    del tbe, tmp
                    shift = world.heap_shift(j)
                    z = _parse(text, None)
                    zbe = z.sync_track.bpm_events
                except BaseException:  # noqa: BLE001
                    break
                counters["healthy_then_dropped_histories"] += 1
                bad_q = None
                for t in qticks:
                    for fn_name in ("timestamp_at_tick_no_optimize_return", "timestamp_at_tick"):
                        try:
                            bad_q = (fn_name, t, getattr(zbe, fn_name)(t))
                        except ValueError:
                            continue
                        except BaseException as e:  # noqa: BLE001
                            bad_q = (fn_name, t, "raised " + type(e).__name__)
                        break
                    if bad_q:
                        break
                del shift, zbe, z
                if bad_q:
                    violations.append({
                        "sig": "C15/zero_tempo/query-must-raise/returned-after-healthy-chart-dropped",
                        "detail": f"a healthy chart was loaded, queried and dropped; then the file with "
                                  f"tempo {info['zero_k']} (tick {zf0}) set to zero was loaded: "
                                  f"{bad_q[0]}({bad_q[1]}) gave {bad_q[2]!r} instead of ValueError "
                                  f"(allocator shift {j})"})
                    break
        if (label == "must-raise" and base_text is not None
                and (ci_ + plan.get("retry_off", 0)) % 4 == 1 and c["kind"] != "res0"):
            # history: an ACCEPTABLE chart that carries the very lines of the corrupted sync body
            # as stray lines in its [Events] section (skipped and reported there) is parsed first;
            # what the process remembers about a line's text must not follow it into [SyncTrack]
            try:
                sep = "\r\n" if "\r\n" in text else "\n"
                base_lines = base_text.split(sep)
                stray = [ln for ln in text.split(sep) if ln.startswith("  ") and (" = B " in ln or " = TS " in ln)
                         and ln not in base_lines]
                if stray and "[Events]" in base_lines:
                    i_ev = base_lines.index("[Events]") + 2
                    carrier = sep.join(base_lines[:i_ev] + stray + base_lines[i_ev:])
                    with world.shadow():
                        _parse(carrier, None)
                    counters["carrier_chart_histories"] += 1
            except BaseException:  # noqa: BLE001 - the carrier is only history, never judged
                pass
        by_path = (label == "must-raise" and base_text is not None and c["kind"] == "swap_tempo"
                   and len(text.encode("utf-8")) == len(base_text.encode("utf-8")))
        try:
            if by_path:
                # disk history: the healthy file is loaded by path, then REPLACED IN PLACE by the
                # corrupted one (same size; the simulation has no clock, so the same modification
                # time), and loaded by path again
                chart = _parse_replaced_path(base_text, text)
                counters["replaced_in_place_by_path"] += 1
            else:
                chart = _parse(text, plan.get("reader_chunk"))
        except BaseException as e:  # noqa: BLE001
            err = e
        ev.update(f"{kind}:{'ok' if err is None else type(err).__name__};".encode())
        caller_boundary()
        if (err is not None and label == "must-raise" and isinstance(err, ValueError)
                and (ci_ + plan.get("retry_off", 0)) % plan.get("retry_mod", 3) == 0):
            # a caller that retries: the same untrustworthy file must be rejected again
            counters["retries"] += 1
            try:
                chart = _parse(text, plan.get("reader_chunk"))
                err = None
                kind = kind + "@retry"
            except BaseException as e:  # noqa: BLE001
                err = e
                if not isinstance(e, ValueError):
                    kind = kind + "@retry"
        what = None
        if label == "must-raise":
            if err is None:
                what = "returned"
            elif not isinstance(err, ValueError):
                what = type(err).__name__
        elif label == "base":
            if err is not None:
                # the well-formed chart itself is rejected on this tree: nothing to corrupt
                raise Discard("base-chart-rejected:" + type(err).__name__)
        elif label == "unspecified":
            if err is not None and not isinstance(err, ValueError):
                what = type(err).__name__
        elif label == "may-parse" and err is None:
            counters["may_parse_parsed"] += 1
        if what is not None:
            got = "returned a chart" if err is None else f"raised {exc_token(err)}"
            violations.append({"sig": f"C15/{kind}/{label}/{what}",
                               "detail": f"corruption {c} of a chart with tempo ticks {tempo_ticks}: "
                                         f"expected {label} but the parse {got}"})
            continue
        if chart is None:
            continue
        if kind == "none":
            base_chart = chart
            base_text = text
        be = chart.sync_track.bpm_events
        # negative ticks never get a time
        for fn_name in ("timestamp_at_tick", "timestamp_at_tick_no_optimize_return"):
            counters["queries"] += 1
            try:
                r = getattr(be, fn_name)(-1)
                violations.append({"sig": f"C15/{kind}/query-must-raise/returned-negative-tick",
                                   "detail": f"{fn_name}(-1) returned {r!r} after corruption {c}"})
            except ValueError:
                pass
            except BaseException as e:  # noqa: BLE001
                violations.append({"sig": f"C15/{kind}/query-must-raise/{type(e).__name__}",
                                   "detail": f"{fn_name}(-1) raised {exc_token(e)} after corruption {c}"})
        if not (label == "may-parse" and "zero_from" in info):
            # every parsed chart answers a few ordinary queries before it is dropped (whatever a
            # query leaves behind in the process must not answer for the next chart); a chart
            # whose map is trustworthy and unchanged answers like the base chart
            for t in probe_ticks[:6] + probe_ticks[-2:]:
                caller_boundary()
                counters["queries"] += 1
                try:
                    got_q: Any = us(be.timestamp_at_tick_no_optimize_return(t))
                except ValueError:
                    got_q = "ValueError"
                except BaseException as e:  # noqa: BLE001
                    got_q = "other:" + type(e).__name__
                    violations.append({"sig": f"C15/{kind}/query/{type(e).__name__}",
                                       "detail": f"query for tick {t} raised {exc_token(e)} after corruption {c}"})
                    break
        if label == "may-parse" and "zero_from" in info and base_chart is not None and chart is not None:
            bad = _concurrent_queries(chart, base_chart, info["zero_from"], probe_ticks,
                                      plan["seed"] + ci_)
            counters["concurrent_query_sessions"] += 1
            ev.update(f"cq:{bad};".encode())
            if bad:
                violations.append({"sig": "C15/zero_tempo/query-must-raise/concurrent-readers",
                                   "detail": f"tempo {info['zero_k']} (tick {info['zero_from']}) is zero; "
                                             f"with two threads querying the chart: {bad}"})
        if label == "may-parse" and "zero_from" in info and base_chart is not None:
            zf = info["zero_from"]
            bbe = base_chart.sync_track.bpm_events
            for t in probe_ticks + [zf, zf + 1, zf + 100000]:
                caller_boundary()
                counters["queries"] += 1
                try:
                    got_ts: Any = us(be.timestamp_at_tick_no_optimize_return(t))
                except ValueError:
                    got_ts = "ValueError"
                except BaseException as e:  # noqa: BLE001
                    got_ts = "other:" + type(e).__name__
                if t >= zf:
                    if got_ts != "ValueError":
                        violations.append({
                            "sig": f"C15/zero_tempo/query-must-raise/{'returned' if isinstance(got_ts, int) else got_ts}",
                            "detail": f"tempo {info['zero_k']} (tick {zf}) is zero; query for tick {t} "
                                      f"gave {got_ts}"})
                        break
                elif c["kind"] == "zero_tempo":
                    want = us(bbe.timestamp_at_tick_no_optimize_return(t))
                    if got_ts != want:
                        violations.append({"sig": "C15/zero_tempo/other-timestamps-changed/-",
                                           "detail": f"query for tick {t} (not governed by the zero "
                                                     f"tempo) gave {got_ts}, uncorrupted chart {want}"})
                        break
    world.drain_log()
    return {
        "violations": violations[:4],
        "digest": ev.hexdigest()[:32],
        "evals": len(plan["corruptions"]),
        "nontrivial": nontrivial,
        "faults_fired": fired,
        "counters": counters,
        "ops": len(plan["corruptions"]),
        "sub_batch": f"tempos={min(len(tempo_ticks), 7)}",
        "sample": {"tempo_ticks": tempo_ticks, "ts_ticks": [t for t, _, _ in doc["tsigs"]],
                   "resolution": doc["resolution"], "corruptions": plan["corruptions"][:12]},
    }


def shrink(plan: dict[str, Any]):
    cs = plan["corruptions"]
    if len(cs) > 2:
        for c in cs:
            if c["kind"] != "none":
                yield {**plan, "corruptions": [{"kind": "none"}, c]}
    doc = plan["doc"]
    if doc["tracks"]:
        for i in range(len(doc["tracks"])):
            d = copy.deepcopy(doc)
            del d["tracks"][i]
            yield {**plan, "doc": d}
    if doc["events"]:
        d = copy.deepcopy(doc)
        d["events"] = []
        yield {**plan, "doc": d}
