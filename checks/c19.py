"""C19 — a parsed chart is an immutable value under all read-only use.

World: one shared chart (+ an identically parsed twin no client touches), 1-4 reader clients with
histories of read-only operations, run under the deterministic scheduler (line-level
pre-emption inside chartparse frames).  Invariants after every operation, checked atomically:
 (1) the full public observation of the chart is what it was initially;
 (2) chart == twin and twin == chart;
 (3) the operation's result equals the result of the same operation on a fresh parse of the same
     text made at that moment (sequential immutable-value model) - in particular no operation may
     fail with an error a single-threaded caller could not get;
 (4) attribute assignment / deletion on event and track objects raises AttributeError.
"""

from __future__ import annotations

from datetime import timedelta
import json
from typing import Any

from detsim import env, gen, minimize, rng, runner
from detsim.observe import exc_token, hashes, observe_chart, observe_track, scrub, us
from detsim.runner import Discard
from detsim.sched import HarnessError, Scheduler, SimDeadlock, deadlock_result

PROP = "C19"
LEVEL = "exploration"
RUNS = {"quick": 2400, "thorough": 60000}
BUDGET_S = {"quick": 150, "thorough": 1500}
RULE = ("each evaluation is one simulated run: one shared parsed chart, 1-4 reader clients, "
        "3-25 read-only operations each, one seeded schedule. Distinct = distinct plan digest; "
        "non-trivial = >= 3 operations including >= 1 on an absent instrument/difficulty or a "
        "failing query, and for multi-client runs >= 1 context switch in the middle of an "
        "operation. 40 % of the runs keep a second chart with a different track set in the "
        "process and direct 30 % of the operations at it; 20 % inject aborts inside read-only "
        "operations; a third of the concurrent runs are cold (no observation before or between "
        "operations). Every result is compared with the same operation on a fresh parse made at "
        "that moment AND on a fresh parse in a process forked from the pristine image")
ASSUMPTIONS = [
    "atomicity model: pre-emption between source lines of chartparse frames (and at operation "
    "boundaries); interleavings inside one C call are out of reach, which is also where the GIL "
    "makes them atomic in CPython 3.12",
    "the fresh parse used as the sequential model is the real parser on the same text",
    "schedules and histories are sampled, not enumerated",
]

DERIVED = {"note": ["end_tick", "longest_sustain"], "sp": ["end_tick"],
           "track": ["header_tag", "last_note_end_timestamp"]}
FIELDS = {
    "bpm": ["tick", "timestamp", "bpm"], "ts": ["tick", "timestamp", "upper_numeral", "lower_numeral"],
    "anchor": ["tick", "timestamp"], "text": ["tick", "timestamp", "value"],
    "section": ["tick", "timestamp", "value"], "lyric": ["tick", "timestamp", "value"],
    "note": ["tick", "timestamp", "note", "sustain", "end_timestamp", "hopo_state", "star_power_data"],
    "sp": ["tick", "timestamp", "sustain"], "trackev": ["tick", "timestamp", "value"],
    "track": ["instrument", "difficulty", "note_events", "star_power_events", "track_events"],
    "sync": ["time_signature_events", "bpm_events", "anchor_events"],
    "events": ["text_events", "section_events", "lyric_events"],
    "bpm_events": ["events", "resolution"],
}


# ----------------------------------------------------------------------------------------------
# planning
# ----------------------------------------------------------------------------------------------

OP_KINDS = ["getitem", "getitem", "getitem2", "nps", "nps", "ts_at", "ts_at_no", "seq",
            "render", "render", "compare", "hash", "prop", "assign", "tickq", "iterate", "clone"]


def _gen_op(r: Any, doc: dict[str, Any], present: list[str], ticks: list[int],
            kinds: list[str] | None = None) -> dict[str, Any]:
    kind = r.choice(kinds or OP_KINDS)
    inst = r.choice(gen.INSTRUMENT_NAMES)
    diff = r.choice(gen.DIFFICULTY_NAMES)
    if present and r.random() < 0.5:
        inst, diff = gen.HEADERS[r.choice(present)]
        if r.random() < 0.25:
            diff = r.choice(gen.DIFFICULTY_NAMES)
    tick = r.choice(ticks + [0, 1, -1, ticks[-1] + 1000, r.randint(0, ticks[-1] + 10)])

    def target(allow_containers: bool = True) -> list[Any]:
        kinds = ["bpm", "ts", "anchor", "text", "section", "lyric"]
        if present:
            kinds += ["note", "note", "sp", "trackev", "track"]
        if allow_containers:
            kinds += ["sync", "events", "bpm_events"]
        k = r.choice(kinds)
        t: list[Any] = [k]
        if k in ("note", "sp", "trackev", "track"):
            t.append(r.choice(present))
        if k not in ("track", "sync", "events", "bpm_events"):
            t.append(r.randrange(16))
        return t

    if kind == "getitem":
        return {"op": "getitem", "inst": inst}
    if kind == "getitem2":
        return {"op": "getitem2", "inst": inst, "diff": diff}
    if kind == "nps":
        form = r.choice(["none", "tick", "tick2", "us", "us2", "rev", "empty"])
        a, b = sorted([r.choice(ticks + [0]), r.choice(ticks + [ticks[-1] + 50])])
        if form == "none":
            st, en = None, None
        elif form == "tick":
            st, en = {"tick": a}, None
        elif form == "tick2":
            st, en = {"tick": a}, {"tick": b}
        elif form == "us":
            st, en = {"us": r.randint(0, 2_000_000)}, None
        elif form == "us2":
            x = r.randint(0, 2_000_000)
            st, en = {"us": x}, {"us": x + r.randint(1, 5_000_000)}
        elif form == "rev":
            st, en = {"tick": b + 1}, {"tick": a}
        else:
            st, en = {"tick": a}, {"tick": a}
        return {"op": "nps", "inst": inst, "diff": diff, "start": st, "end": en}
    if kind == "ts_at":
        return {"op": "ts_at", "tick": tick, "hint": r.choice([None, 0, 0, 1, 2, 5, 99])}
    if kind == "ts_at_no":
        return {"op": "ts_at_no", "tick": tick}
    if kind == "seq":
        return {"op": "seq", "what": r.choice(["len", "index", "count", "contains", "reversed",
                                               "slice", "iter"]), "arg": r.randrange(8)}
    if kind == "render":
        return {"op": "render", "target": r.choice([["chart"], ["chart"], ["meta"], target()]),
                "how": r.choice(["str", "repr"])}
    if kind == "compare":
        return {"op": "compare", "dir": r.choice(["lr", "rl"]), "cmp": r.choice(["==", "!="]),
                "target": r.choice([["chart"], ["chart"], target()])}
    if kind == "hash":
        return {"op": "hash", "target": target(allow_containers=False)}
    if kind == "prop":
        t = target(allow_containers=False)
        names = DERIVED.get(t[0]) or FIELDS[t[0]]
        return {"op": "prop", "target": t, "name": r.choice(names + FIELDS[t[0]][:1])}
    if kind == "tickq":
        return {"op": "tickq", "target": ["sp", r.choice(present) if present else "ExpertSingle",
                                          r.randrange(8)],
                "tick": tick, "which": r.choice(["during", "after"])}
    if kind == "iterate":
        return {"op": "iterate"}
    if kind == "clone":
        return {"op": "clone", "how": r.choice(["copy", "deepcopy", "pickle", "replace"]),
                "target": r.choice([["chart"], ["chart"], target()])}
    t = target()
    names = FIELDS[t[0]] + (DERIVED.get(t[0]) or []) + ["verif_probe"]
    return {"op": "assign", "target": t, "attr": r.choice(names),
            "mode": r.choice(["set", "set", "del"])}


def make_plan(seed: int, tier: str, index: int) -> dict[str, Any]:
    g = rng.stream(seed, "gen")
    p = rng.stream(seed, "plan")
    s = rng.stream(seed, "sched")
    doc = gen.gen_doc(g, max_tracks=4, small=g.random() < 0.5)
    doc["unknown"] = []
    if g.random() < 0.1:
        gen.add_far_events(g, doc)
    if index % 40 == 17:
        gen.add_many_notes(g, doc, g.choice([520, 700]))
    st = rng.stream(seed, "stampede")
    st_on = st.random() < 0.35
    st_kind = st.choice(["ts_far", "ts_far", "ts_far", "nps", "prop", "render", "hash", "iterate",
                         "derived", "derived", "derived"])
    if st_on and st_kind == "derived" and doc["tracks"]:
        # the first track is long, so that the first computation of its derived attributes is
        # (several readers arrive while one of them is still inside it)
        gen.add_many_notes(g, doc, st.choice([60, 150, 300]))
    text = gen.render(doc)
    if doc["tracks"] and g.random() < 0.3:
        # unusual but accepted input: records of one instrument section out of tick order (the
        # parser neither sorts nor always rejects them; runs whose chart is rejected are discarded)
        secs = gen.sections(doc)
        si = 3 + g.randrange(len(doc["tracks"]))
        body = secs[si][1]
        if len(body) >= 2:
            if g.random() < 0.5:
                i, j = g.sample(range(len(body)), 2)
                body[i], body[j] = body[j], body[i]
            else:
                g.shuffle(body)
        text = gen.render_sections(secs)
    present = [t[0] for t in doc["tracks"]]
    ticks = sorted({t for t, _ in doc["tempos"]} | {gr["tick"] for tr in doc["tracks"] for gr in tr[1]}
                   | {0})
    n_clients = p.choice([1, 1, 2, 2, 3, 4])
    # swarm style: most runs enable only a random subset of the operation kinds, so that rare
    # combinations (e.g. two clients both issuing tick-to-time queries) are not diluted
    kinds = None
    if p.random() < 0.6:
        kinds = p.sample(sorted(set(OP_KINDS)), p.randint(2, 5))
    clients = []
    for _ in range(n_clients):
        clients.append([_gen_op(p, doc, present, ticks, kinds)
                        for _ in range(p.randint(3, 25 if n_clients < 3 else 12))])
    if n_clients > 1 and st_on:
        # "stampede": every reader STARTS with the same read (often a far tick-to-time query, a
        # rate query over ticks, a derived attribute, a rendering) - the first use of lazily built
        # state by several threads at once, the classic check-then-act window
        k = st_kind if (st_kind != "derived" or present) else "ts_far"
        if k == "ts_far":
            far = ticks[-1] + st.choice([0, 1, 1000, 100000])
            common = [{"op": st.choice(["ts_at", "ts_at_no"]), "tick": far, "hint": None}
                      for _ in range(st.choice([1, 2]))]
            for c_ in common:
                if c_["op"] == "ts_at_no":
                    c_.pop("hint")
        elif k == "derived":
            # a lazily computed attribute of ONE object, read for the first time by everybody
            tk = st.choice(["track", "track", "track", "note", "sp"])
            tgt: list[Any] = [tk, present[0] if st.random() < 0.7 else st.choice(present)] + (
                [st.randrange(16)] if tk != "track" else [])
            common = [{"op": "prop", "target": tgt, "name": st.choice(DERIVED[tk])}]
            while n_clients < 3 or (n_clients < 4 and st.random() < 0.3):
                clients.append([])  # lost wake-ups need three readers
                n_clients += 1
        else:
            common = [_gen_op(st, doc, present, ticks, [k])]
        follow = [{"op": "ts_at", "tick": t_, "hint": None} for t_ in (ticks[-1], ticks[len(ticks) // 2])]
        for ops in clients:
            ops[:0] = [dict(c_) for c_ in common]
            if k == "ts_far":
                ops.extend(dict(f_) for f_ in follow)  # later look-ups read what the race left behind
        plan_stampede = k
    else:
        plan_stampede = None
    total_ops = sum(len(c) for c in clients)
    if n_clients == 1:
        schedule: dict[str, Any] = {"mode": "sequential", "seed": s.getrandbits(32)}
    else:
        m = s.random()
        if m < 0.15:
            schedule = {"mode": "sequential", "seed": s.getrandbits(32), "p_boundary": 0.6}
        elif m < 0.75:
            schedule = {"mode": "geometric", "seed": s.getrandbits(32),
                        "gap": s.choice([2, 3, 5, 10, 30, 100])}
        else:
            schedule = {"mode": "pct", "seed": s.getrandbits(32), "d": s.choice([1, 2, 3]),
                        "est_steps": max(50, total_ops * s.choice([20, 60, 150]))}
    if schedule["mode"] != "sequential" and s.random() < 0.2:
        # write-biased schedule: switch right after heap writes, then let the other thread run long
        schedule = {"mode": "writes", "seed": s.getrandbits(32), "p": s.choice([0.1, 0.3, 0.6]),
                    "hold": s.choice([20, 200, 1000, 4000])}
    elif schedule["mode"] != "sequential" and s.random() < 0.2:
        # knob: pre-empt between bytecodes (sys.monitoring) instead of between source lines
        schedule["granularity"] = "opcode"
        if "est_steps" in schedule:
            schedule["est_steps"] *= 4
    plan = {"property": PROP, "seed": seed, "text": text, "present": present, "clients": clients,
            "schedule": schedule}
    if index % 48 == 21:
        plan["pickle_consumer"] = 1 + st.randrange(2**31 - 2)
    if plan_stampede:
        plan["stampede"] = plan_stampede
        if plan_stampede == "derived" or st.random() < 0.6:
            plan["cold"] = True
    f = rng.stream(seed, "fault")
    if present and g.random() < 0.3:
        # the shared chart (and its twin, and every fresh parse) was parsed WITH a track selection:
        # some, none or all difficulties of an instrument that the file has may be deselected
        pool = [list(gen.HEADERS[h]) for h in present]
        keep = [x for x in pool if g.random() < 0.5]
        extra = [list(gen.HEADERS[g.choice(gen.ALL_HEADERS)]) for _ in range(g.choice([0, 0, 1]))]
        plan["select"] = {"form": g.choice(["list", "tuple"]), "pairs": sorted(keep + extra)}
    if g.random() < 0.4:
        # a second parsed chart with a different track set lives in the same process and is used
        # by the same readers: nothing a reader does to one chart may show on the other
        taken = set(present)
        oh = [h for h in g.sample(gen.ALL_HEADERS, g.randint(0, 3)) if h not in taken]
        odoc = gen.gen_doc(g, headers=oh, small=True)
        odoc["unknown"] = []
        plan["other_text"] = gen.render(odoc)
        plan["other_present"] = oh
        oticks = sorted({t for t, _ in odoc["tempos"]} | {gr["tick"] for tr in odoc["tracks"] for gr in tr[1]} | {0})
        for ops in clients:
            for i in range(len(ops)):
                if p.random() < 0.3:
                    # the same kind of question, asked of the other chart (often about a track
                    # that only one of the two charts has)
                    op = _gen_op(p, odoc, oh if p.random() < 0.5 else present, oticks or [0],
                                 ["nps", "nps", "getitem", "getitem2", "ts_at", "prop", "render"])
                    op["on"] = "other"
                    ops[i] = op
    if f.random() < 0.25:
        plan["dropped_partner"] = True
    if f.random() < 0.2:
        # crash points inside read-only operations: an asynchronous exception cuts a read short;
        # whatever the read had started to cache must not become the chart's value
        all_ops = [op for ops in clients for op in ops if op["op"] not in ("assign", "compare")]
        for op in f.sample(all_ops, min(len(all_ops), f.randint(1, 3))):
            op["abort"] = {"at": f.choice([1, 2, 3, 5, 8, 13, 21, 34, 55]),
                           "exc": f.choice(["SimAbort", "MemoryError", "KeyboardInterrupt"])}
    if s.random() < (0.35 if n_clients > 1 else 0.15):
        # "cold" runs: the harness does not observe the shared chart before or between operations
        # (observing reads every derived attribute and would fill all lazy caches before the
        # readers start); observation and twin equality are judged once, at the end, against the
        # untouched twin
        plan["cold"] = True
    return plan


# ----------------------------------------------------------------------------------------------
# execution
# ----------------------------------------------------------------------------------------------

def _resolve(chart: Any, target: list[Any]) -> Any:
    """Target path -> object (None when the addressed list is empty / track absent)."""
    from detsim import world

    k = target[0]
    if k == "chart":
        return chart
    if k == "meta":
        return chart.metadata
    if k == "sync":
        return chart.sync_track
    if k == "events":
        return chart.global_events_track
    if k == "bpm_events":
        return chart.sync_track.bpm_events
    if k in ("bpm", "ts", "anchor", "text", "section", "lyric"):
        lst = {
            "bpm": lambda: chart.sync_track.bpm_events.events,
            "ts": lambda: chart.sync_track.time_signature_events,
            "anchor": lambda: chart.sync_track.anchor_events,
            "text": lambda: chart.global_events_track.text_events,
            "section": lambda: chart.global_events_track.section_events,
            "lyric": lambda: chart.global_events_track.lyric_events,
        }[k]()
        return lst[target[1] % len(lst)] if lst else None
    inst, diff = world.pair(*gen.HEADERS[target[1]])
    tr = chart.instrument_tracks.get(inst, {}).get(diff)
    if tr is None:
        return None
    if k == "track":
        return tr
    lst = {"note": tr.note_events, "sp": tr.star_power_events, "trackev": tr.track_events}[k]
    return lst[target[2] % len(lst)] if lst else None


def _val(v: Any) -> Any:
    if isinstance(v, timedelta):
        return ["td", us(v)]
    if isinstance(v, (int, str, bool)) or v is None:
        return v
    if isinstance(v, float):
        return repr(v)
    if isinstance(v, (list, tuple)):
        return [_val(x) for x in v]
    if hasattr(v, "name") and hasattr(v, "value"):
        return ["enum", type(v).__name__, v.name]
    return scrub(repr(v))


def do_op(chart: Any, twin: Any, op: dict[str, Any]) -> Any:
    """Perform one read-only operation through the public API and reduce the result to a
    comparable JSON value.  Exceptions propagate to the caller."""
    from detsim import world

    k = op["op"]
    be = chart.sync_track.bpm_events
    if k == "getitem":
        Instrument, _ = world.enums()
        d = chart[Instrument[op["inst"]]]
        return sorted([df.name, rng.digest(observe_track(tr))] for df, tr in d.items())
    if k == "getitem2":
        i, d = world.pair(op["inst"], op["diff"])
        return rng.digest(observe_track(chart[i][d]))
    if k == "nps":
        i, d = world.pair(op["inst"], op["diff"])

        def bound(b: Any) -> Any:
            if b is None:
                return None
            if "tick" in b:
                return b["tick"]
            return timedelta(microseconds=b["us"])

        st, en = bound(op["start"]), bound(op["end"])
        if st is None and en is None:
            return repr(chart.notes_per_second(i, d))
        if en is None:
            return repr(chart.notes_per_second(i, d, st))
        return repr(chart.notes_per_second(i, d, st, en))
    if k == "ts_at":
        if op["hint"] is None:
            ts, idx = be.timestamp_at_tick(op["tick"])
        else:
            ts, idx = be.timestamp_at_tick(op["tick"], start_iteration_index=op["hint"])
        return [us(ts), idx]
    if k == "ts_at_no":
        return us(be.timestamp_at_tick_no_optimize_return(op["tick"]))
    if k == "seq":
        w, a = op["what"], op["arg"]
        n = len(be)
        if w == "len":
            return n
        if w == "index":
            return be.index(be[a % n])
        if w == "count":
            return be.count(be[a % n])
        if w == "contains":
            return be[a % n] in be
        if w == "reversed":
            return [[e.tick, repr(e.bpm)] for e in reversed(be)]
        if w == "iter":
            return [[e.tick, us(e.timestamp)] for e in be]
        return [[e.tick, repr(e.bpm)] for e in be[a % n:]]
    if k == "render":
        obj = _resolve(chart, op["target"])
        if obj is None:
            return "n/a"
        return scrub(str(obj) if op["how"] == "str" else repr(obj))
    if k == "compare":
        a = _resolve(chart, op["target"])
        b = _resolve(twin, op["target"])
        if a is None or b is None:
            return "n/a"
        if op["dir"] == "rl":
            a, b = b, a
        return (a == b) if op["cmp"] == "==" else (a != b)
    if k == "hash":
        obj = _resolve(chart, op["target"])
        if obj is None:
            return "n/a"
        return hash(obj)
    if k == "prop":
        obj = _resolve(chart, op["target"])
        if obj is None:
            return "n/a"
        return _val(getattr(obj, op["name"]))
    if k == "tickq":
        obj = _resolve(chart, op["target"])
        if obj is None:
            return "n/a"
        if op["which"] == "during":
            return obj.tick_is_during_event(op["tick"])
        return obj.tick_is_after_event(op["tick"])
    if k == "clone":
        # copying / serialising / introspecting are read-only uses too; whether a copy can be
        # made (and equals its original) is only compared with what a fresh parse gives
        import copy
        import dataclasses
        import pickle

        obj = _resolve(chart, op["target"])
        if obj is None:
            return "n/a"
        how = op["how"]
        if how == "copy":
            c2 = copy.copy(obj)
        elif how == "deepcopy":
            c2 = copy.deepcopy(obj)
        elif how == "pickle":
            c2 = pickle.loads(pickle.dumps(obj))
        elif how == "replace":
            c2 = dataclasses.replace(obj) if dataclasses.is_dataclass(obj) else copy.copy(obj)
        else:  # vars()/dir() are deliberately not used: they show lazily cached attributes
            raise HarnessError(f"unknown clone kind {how}")
        try:
            return ["copied", bool(c2 == obj), scrub(repr(c2)) == scrub(repr(obj))]
        except BaseException as e:  # noqa: BLE001
            return ["copied", "compare-raised", type(e).__name__]
    if k == "iterate":
        out = []
        for inst, dd in chart.instrument_tracks.items():
            for diff, tr in dd.items():
                out.append([inst.name, diff.name, len(tr.note_events)])
        return out
    if k == "assign":
        obj = _resolve(chart, op["target"])
        if obj is None:
            return "n/a"
        try:
            if op["mode"] == "set":
                setattr(obj, op["attr"], 12345)
            else:
                delattr(obj, op["attr"])
        except AttributeError:
            return "rejected"
        return "ACCEPTED"
    raise HarnessError(f"unknown op {k}")


def _pristine_results(text: str, other_text: str | None, clients: list[list[dict[str, Any]]],
                      select: Any = None) -> dict[str, Any]:
    """Every operation's result on a FRESH parse, computed in a process forked from the pristine
    image (one fresh parse per operation, so operations cannot influence each other either)."""
    from detsim import world

    world.reference_process_state()
    out: dict[str, Any] = {}
    for ci, ops in enumerate(clients):
        for k, op in enumerate(ops):
            if op["op"] in ("hash", "compare"):
                continue
            t = other_text if op.get("on") == "other" else text
            try:
                fresh = world.parse_text(t, None if op.get("on") == "other" else select)
            except Exception as e:  # noqa: BLE001
                out[f"{ci}.{k}"] = ["unparsable", type(e).__name__]
                continue
            try:
                out[f"{ci}.{k}"] = ["ok", do_op(fresh, fresh, op)]
            except BaseException as e:  # noqa: BLE001
                out[f"{ci}.{k}"] = ["exc"] + exc_token(e)
    return out


def _absent_flag(op: dict[str, Any], present: list[str]) -> bool:
    if op["op"] == "getitem":
        return not any(gen.HEADERS[h][0] == op["inst"] for h in present)
    if op["op"] in ("getitem2", "nps"):
        return gen.PAIR_TO_HEADER[(op["inst"], op["diff"])] not in present
    return False


def execute(plan: dict[str, Any]) -> dict[str, Any]:
    from detsim import world

    world.install_log_sink()
    text = plan["text"]
    present = plan["present"]
    violations: list[dict[str, Any]] = []
    probes: dict[str, int] = {}
    state = {"halt": False}

    def vio(inv: str, op: dict[str, Any] | None, extra: str, detail: str) -> None:
        if state["halt"]:
            return
        state["halt"] = True
        opk = op["op"] if op else ("final" if extra in ("cold-final", "other-chart-final",
                                                         "fresh-twin-after-dropped-partner",
                                                         "pickled-copy-in-another-interpreter") else "initial")
        absent = "absent" if (op and _absent_flag(op, present)) else "present"
        violations.append({"sig": f"C19/{inv}/{opk}/{absent}/{extra}", "detail": detail})

    other_text = plan.get("other_text")
    try:
        pristine = runner.in_fork(_pristine_results, text, other_text, plan["clients"],
                                  plan.get("select"), timeout=150)
    except runner.ChildFailure as e:
        return {"violations": [], "digest": "", "evals": 1,
                "harness_error": f"reference computation failed: {e}"}
    try:
        chart = world.parse_text(text, plan.get("select"))
        twin = world.parse_text(text, plan.get("select"))
        other = other_twin = None
        if other_text is not None:
            other = world.parse_text(other_text)
            other_twin = world.parse_text(other_text)
    except Exception as e:  # noqa: BLE001
        raise Discard("chart-rejected:" + type(e).__name__) from e
    cold = bool(plan.get("cold"))
    obs0 = None
    if not cold:
        obs0 = rng.digest(observe_chart(chart))
        if not (chart == twin and twin == chart):
            vio("twin-unequal", None, "-", "chart != twin right after the initial observation of chart")
    n_clients = len(plan["clients"])
    sched = Scheduler(plan["schedule"], n_clients, env.PKG_DIR,
                      preempt_lines=not env.package_uses_locks_or_threads())
    n_ops = 0
    n_failing = 0

    def body_for(ci: int) -> Any:
        ops = plan["clients"][ci]

        def body(client: Any) -> None:
            nonlocal n_ops, n_failing
            for k, op in enumerate(ops):
                if state["halt"]:
                    return
                on_other = op.get("on") == "other" and other is not None
                tgt, tgt_twin = (other, other_twin) if on_other else (chart, twin)
                tgt_text = other_text if on_other else text
                sched.begin_op(client, k, op.get("abort"))
                try:
                    res: Any = ["ok", do_op(tgt, tgt_twin, op)]
                except HarnessError:
                    raise
                except BaseException as e:  # noqa: BLE001
                    res = ["exc"] + exc_token(e)
                aborted = client.abort_fired_at is not None
                sched.end_op(client)
                n_ops += 1
                with sched.atomic(client):
                    if aborted:
                        # relaxed oracle for the interrupted operation itself (it may fail in any
                        # way); the chart is judged as after any other operation
                        probes["abort_in_read_only_op"] = probes.get("abort_in_read_only_op", 0) + 1
                        sched.record("op", ci, k, op["op"], "aborted", client.abort_fired_at)
                        res = None
                    if res is not None and res[0] == "exc":
                        n_failing += 1
                    if res is not None:
                        sched.record("op", ci, k, op["op"], rng.digest(res) if op["op"] != "hash" else res[0])
                    # (5) the same operation on a fresh parse in a PRISTINE process (nothing that
                    # happened in this process - to this chart or to any other - may show)
                    pr = pristine.get(f"{ci}.{k}")
                    if res is not None and pr is not None and pr[0] != "unparsable" and pr != res:
                        et = res[1].rsplit(".", 1)[-1] if res[0] == "exc" else "value"
                        vio("result-differs-from-pristine-process", op, et,
                            f"client {ci} op {k}: {op} -> {str(res)[:300]} but the same operation on a "
                            f"fresh parse in a fresh process gives {str(pr)[:300]}")
                    # (4)
                    if res is not None and op["op"] == "assign" and res == ["ok", "ACCEPTED"]:
                        vio("assignment-accepted", op, f"{op['target'][0]}.{_attr_class(op)}.{op['mode']}",
                            f"client {ci} op {k}: {op} was accepted")
                    # (3) sequential model: same op on a fresh parse made now
                    if res is None:
                        pass
                    elif op["op"] != "compare" and not state["halt"] and not cold:
                        # (not in cold runs: there the harness does not touch the library between
                        # the readers' operations at all - a model parse is activity too, and e.g.
                        # its notifications on a module-level condition would rescue a reader that
                        # lost its wake-up; oracle (5) judges the results)
                        fresh = world.parse_text(tgt_text, None if on_other else plan.get("select"))
                        try:
                            exp: Any = ["ok", do_op(fresh, fresh, op)]
                        except BaseException as e:  # noqa: BLE001
                            exp = ["exc"] + exc_token(e)
                        if exp != res:
                            et = res[1].rsplit(".", 1)[-1] if res[0] == "exc" else "value"
                            vio("result-differs-from-fresh-parse", op, et,
                                f"client {ci} op {k}: {op} -> {str(res)[:300]} but a fresh parse "
                                f"gives {str(exp)[:300]}")
                    elif op["op"] == "compare" and res[0] == "ok" and res[1] != "n/a":
                        want = op["cmp"] == "=="
                        if res[1] is not want:
                            vio("twin-unequal", op, "compare-op",
                                f"client {ci} op {k}: {op} returned {res[1]}")
                    elif op["op"] == "compare" and res[0] == "exc":
                        vio("result-differs-from-fresh-parse", op, res[1].rsplit(".", 1)[-1],
                            f"client {ci} op {k}: {op} raised {res}")
                    # (1) observation constant
                    if not state["halt"] and not cold:
                        try:
                            now = rng.digest(observe_chart(chart))
                        except BaseException as e:  # noqa: BLE001
                            now = "exc:" + type(e).__name__
                        if now != obs0:
                            vio("observation-changed", op, "-",
                                f"client {ci} op {k}: after {op} the public observation of the "
                                f"chart changed")
                    # (2) twin equality
                    if not state["halt"] and not cold:
                        try:
                            eq = bool(chart == twin) and bool(twin == chart) and not (chart != twin)
                        except BaseException as e:  # noqa: BLE001
                            eq = False
                        if not eq:
                            vio("twin-unequal", op, "-",
                                f"client {ci} op {k}: after {op} chart != twin")
                        elif hashes(chart) != hashes(twin):
                            vio("twin-unequal", op, "hash",
                                f"client {ci} op {k}: after {op} events of chart and twin hash differently")

        return body

    harness_error = None
    try:
        sched.run([body_for(i) for i in range(n_clients)])
    except SimDeadlock as e:
        # threads / locks the library made itself, all of them scheduled by the simulator:
        # under this schedule a call never returns (its reference does)
        return deadlock_result(PROP, e, sched)
    except HarnessError as e:
        harness_error = str(e)
    if cold and harness_error is None and not state["halt"]:
        # end-of-run judgement of a cold run: the chart the readers used against its untouched twin
        try:
            now = rng.digest(observe_chart(chart))
        except BaseException as e:  # noqa: BLE001
            now = "exc:" + type(e).__name__
        if now != rng.digest(observe_chart(twin)):
            vio("observation-changed", None, "cold-final",
                "after all read-only operations the public observation of the chart differs from "
                "that of its untouched, identically parsed twin")
        else:
            try:
                eq = bool(chart == twin) and bool(twin == chart) and not (chart != twin)
            except BaseException:  # noqa: BLE001
                eq = False
            if not eq:
                vio("twin-unequal", None, "cold-final", "after all read-only operations chart != twin")
    if other is not None and harness_error is None and not state["halt"]:
        try:
            same = (rng.digest(observe_chart(other)) == rng.digest(observe_chart(other_twin))
                    and bool(other == other_twin) and bool(other_twin == other))
        except BaseException:  # noqa: BLE001
            same = False
        if not same:
            vio("observation-changed", None, "other-chart-final",
                "after all read-only operations the second chart differs from its untouched twin")
    if plan.get("dropped_partner") and harness_error is None and not state["halt"]:
        # (6) comparing the chart with ANOTHER chart is a read-only use too: after that chart is
        # dropped, a freshly parsed twin (whatever address it receives - swept over allocator
        # shifts) still equals the chart
        partner_text = other_text or text.replace("[Events]\n{", "[Events]\n{\n  0 = E \"partner\"", 1)
        for j in (0, 1, 2, 3, 4, 5, 6, 8, 11, 16):
            try:
                x = world.parse_text(partner_text)
                _ = (chart == x, x == chart, chart != x)
                del x
                shift = world.heap_shift(j)
                t2 = world.parse_text(text, plan.get("select"))
                ok = bool(chart == t2) and bool(t2 == chart) and not (chart != t2)
                del shift, t2
            except BaseException:  # noqa: BLE001
                break
            if not ok:
                vio("twin-unequal", None, "fresh-twin-after-dropped-partner",
                    f"the chart was compared with another chart, that chart was dropped, and a freshly "
                    f"parsed twin no longer equals the chart (allocator shift {j})")
                break
        probes["dropped_partner_sweeps"] = 1
    if plan.get("pickle_consumer") and harness_error is None and not state["halt"]:
        # (7) the used chart travels: every event is hashed (a read-only use), the chart is pickled
        # and a program in ANOTHER interpreter (another PYTHONHASHSEED) loads it next to a freshly
        # parsed chart.  What that program observes must be what it observes for the pickle of the
        # untouched twin - nothing a read left inside the chart may travel with it
        import base64
        import pickle
        import subprocess

        from detsim.observe import all_events

        try:
            for _k, e_ in all_events(chart):
                try:
                    hash(e_)
                except TypeError:
                    pass
            blobs = {"used": pickle.dumps(chart), "twin": pickle.dumps(twin)}
        except BaseException:  # noqa: BLE001 - whether a chart pickles is judged by the clone operations
            blobs = None
        if blobs is not None:
            req = {"text": text, "select": plan.get("select"),
                   **{k_: base64.b64encode(v_).decode("ascii") for k_, v_ in blobs.items()}}
            pr = subprocess.run([env.PYTHON, "-m", "detsim.pickleprobe"], input=json.dumps(req).encode("utf-8"),
                                capture_output=True, timeout=150, cwd=env.VERIF_ROOT,
                                env=env.fresh_interpreter_env(int(plan["pickle_consumer"])))
            if pr.returncode != 0:
                harness_error = "pickle consumer failed: " + pr.stderr.decode("utf-8", "replace")[-600:]
            else:
                rep = json.loads(pr.stdout.decode("ascii"))
                probes["pickle_consumers_in_another_interpreter"] = 1
                if rep["used"] != rep["twin"]:
                    diff = {k_: (rep["used"].get(k_), rep["twin"].get(k_))
                            for k_ in sorted(set(rep["used"]) | set(rep["twin"]))
                            if rep["used"].get(k_) != rep["twin"].get(k_)}
                    vio("observation-changed", None, "pickled-copy-in-another-interpreter",
                        "the chart was used read-only (incl. hashing its events), pickled and loaded in "
                        "an interpreter with another hash seed: that program observes (used chart, "
                        f"untouched twin) {diff}")
    probes["cold_runs"] = 1 if cold else 0
    probes["runs_with_second_chart"] = 1 if other is not None else 0
    probes["runs_with_selection"] = 1 if plan.get("select") is not None else 0
    world.drain_log()
    all_ops = [op for c in plan["clients"] for op in c]
    has_special = any(_absent_flag(op, present) for op in all_ops) or n_failing > 0
    nontrivial = (len(all_ops) >= 3 and has_special
                  and (n_clients == 1 or sched.mid_op_switches >= 1))
    probes["op_on_absent_key"] = sum(1 for op in all_ops if _absent_flag(op, present))
    probes["failing_ops"] = n_failing
    probes["multi_client_runs"] = 1 if n_clients > 1 else 0
    for d in sched.decisions:
        if d[1] == "sw" and d[4].endswith(":Chart.__str__"):
            probes["preempted_inside_Chart.__str__"] = probes.get("preempted_inside_Chart.__str__", 0) + 1
    sched.record("violations", [v["sig"] for v in violations])
    return {
        "violations": violations,
        "digest": sched.events.hexdigest()[:32],
        "evals": 1,
        "nontrivial": [rng.digest(plan)] if nontrivial else [],
        "probes": {**probes, **sched.probes},
        "interleaving": sched.interleaving.hexdigest()[:32],
        "loc_pairs": sorted(sched.loc_pairs)[:50],
        "sim_steps": sched.global_step,
        "ops": n_ops,
        "switches": sched.switches,
        "mid_op_switches": sched.mid_op_switches,
        "sched_mode": sched.mode,
        "knobs": {"opcode_granularity": 1} if sched.granularity == "opcode" else {},
        "sub_batch": "single-client" if n_clients == 1 else "concurrent",
        "sample": {"clients": [c[:4] for c in plan["clients"]], "schedule": plan["schedule"],
                   "text_lines": text.count("\n")},
        "harness_error": harness_error,
        "explicit_schedule": sched.explicit_schedule(),
    }


def _attr_class(op: dict[str, Any]) -> str:
    t = op["target"][0]
    a = op["attr"]
    if a == "verif_probe":
        return "new-name"
    if a in (DERIVED.get(t) or []):
        return "derived"
    return "field"


# ----------------------------------------------------------------------------------------------
# minimisation
# ----------------------------------------------------------------------------------------------

def shrink(plan: dict[str, Any]):
    clients = plan["clients"]
    # drop whole clients
    if len(clients) > 1:
        for i in range(len(clients)):
            yield {**plan, "clients": clients[:i] + clients[i + 1:]}
    # drop operations (halves, then singles)
    for ci, ops in enumerate(clients):
        n = len(ops)
        if n > 1:
            for a, b in ((0, n // 2), (n // 2, n)):
                cand = ops[:a] + ops[b:]
                if cand:
                    yield {**plan, "clients": clients[:ci] + [cand] + clients[ci + 1:]}
            for i in range(n):
                cand = ops[:i] + ops[i + 1:]
                yield {**plan, "clients": clients[:ci] + [cand] + clients[ci + 1:]}
    # simpler schedule
    yield from minimize.shrink_schedule(plan)
    # smaller text: drop body lines
    lines = plan["text"].split("\n")
    for i, ln in enumerate(lines):
        if ln.startswith("  ") and "Resolution" not in ln and not ln.strip().startswith("0 = "):
            yield {**plan, "text": "\n".join(lines[:i] + lines[i + 1:])}
