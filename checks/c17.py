"""C17 — parsing is a pure function of the text, free of history and schedule (flagship).

World: a corpus of 3-8 texts (well-formed charts of different resolutions and header sets, plus
texts that fail), 1-4 caller threads each with a history of parse operations (with repetitions),
run under the deterministic line-level scheduler.  Fault sub-batches (kept apart so that no
relaxed oracle hides an ordinary bug): none / result-preserving I/O behaviour / EIO / abort at an
arbitrary line of an arbitrary parse (cancellation or allocation failure) / memo tables cleared
at random operation boundaries.

Oracle: every completed operation's (outcome kind, exception type and message, observation
digest, warnings emitted by that caller during it) equals the reference for the same text,
selection and access path computed by ONE parse in a process forked from the pristine image;
faulted operations raise exactly the injected exception; additionally the result compares equal
(chartparse's own ==) to the first result obtained for the same text in this run.  A sample of
references is recomputed in a genuinely fresh interpreter under a random PYTHONHASHSEED.
"""

from __future__ import annotations

import copy
import errno
import json
import os
import subprocess
from typing import Any

from detsim import env, gen, minimize, parseop, rng, runner, simfs
from detsim.observe import exc_token, hashes, observe_chart
from detsim.sched import HarnessError, Scheduler, SimDeadlock, make_abort_exc

PROP = "C17"
LEVEL = "exploration"
RUNS = {"quick": 1200, "thorough": 40000}
BUDGET_S = {"quick": 150, "thorough": 1500}
FRESH_EVERY = {"quick": 20, "thorough": 12}
RULE = ("each evaluation is one simulated run: a corpus of 3-8 texts, 1-4 caller threads with "
        "1-6 parse operations each, one seeded schedule and one fault sub-batch. Distinct = "
        "distinct plan digest; non-trivial = >= 2 operations on >= 2 distinct texts and (>= 1 "
        "context switch in the middle of an operation or >= 1 fired fault). Sub-batches: none / "
        "result-preserving I/O / EIO / abort (uniform, targeted at function families, or aimed at "
        "cold lines that only the first parse of a process executes) / cache_clear / long "
        "histories / caller-object faults (log handler raises or re-enters the parser, selection "
        "sequence raises, reader raises); half of the runs without faults replace stored files in "
        "place by same-length texts with the same modification time")
ASSUMPTIONS = [
    "the reference is one parse of the same text by the real package in a process forked from "
    "the pristine image (chartparse imported, never called); a sample is cross-checked in a "
    "fresh interpreter under a random PYTHONHASHSEED",
    "atomicity model: pre-emption between source lines of chartparse frames and at operation "
    "boundaries; C calls are atomic (GIL)",
    "histories, schedules and fault points are sampled, not enumerated",
]
ABORT_TARGETS = ["from_parsed_data", "from_chart_line", "from_chart_lines", "build_", "data_to_",
                 "timestamp_at_tick", "_index_of_proximal_event", "__post_init__", "complex_sustain",
                 "_compute_", "__init__", "_refined_", "note_duration", "seconds_from", "from_file",
                 "_parse_data", "parse_data_from", "is_chord", "is_5_note", "<genexpr>", "<lambda>"]
SUB_BATCHES = ["none", "none", "io", "eio", "abort", "abort", "cache_clear", "long", "callerfault",
               "churn"]
JUNK_LINES = ["free text", "", "{t} = N 8 0", "{t} = S 64 10", "{t} = E two words", "100% {t} %s",
              "{t} = Q 1 2"]


# ----------------------------------------------------------------------------------------------
# planning
# ----------------------------------------------------------------------------------------------

def _family(section: str) -> str:
    return {"SyncTrack": "sync", "Events": "events", "Song": "song"}.get(section, "instrument")


def _gen_selection(r: Any, headers: list[str]) -> Any:
    x = r.random()
    if x < 0.6:
        return None
    if x < 0.7:
        return {"form": r.choice(["list", "tuple"]), "pairs": []}
    pool = [list(gen.HEADERS[h]) for h in headers] + [
        list(gen.HEADERS[r.choice(gen.ALL_HEADERS)]) for _ in range(2)]
    k = r.randint(1, min(3, len(pool)))
    return {"form": r.choice(["list", "tuple"]), "pairs": sorted(r.sample(pool, k))}


def make_plan(seed: int, tier: str, index: int) -> dict[str, Any]:
    g = rng.stream(seed, "gen")
    p = rng.stream(seed, "plan")
    s = rng.stream(seed, "sched")
    io_r = rng.stream(seed, "io")
    f = rng.stream(seed, "fault")
    sub = SUB_BATCHES[index % len(SUB_BATCHES)]
    resolutions = g.sample(gen.RESOLUTION_POOL, g.choice([1, 2, 2, 3]))
    n_ok = g.randint(2, 6)
    corpus: list[dict[str, Any]] = []
    docs = []
    big_run = index % 20 == 13 and sub in ("none", "cache_clear", "io", "long")
    for i in range(n_ok):
        d = gen.gen_doc(g, resolutions=resolutions, thresholds_for=resolutions, max_tracks=3,
                        small=True)
        if g.random() < 0.06:
            gen.add_far_events(g, d)
        if g.random() < 0.15:
            # a [Song] field written twice with different values (accepted: one of them wins -
            # always the same one)
            cand = [m for m in d["meta"]]
            if cand:
                m0 = g.choice(cand)
                alt = {"Resolution": str(g.choice([r for r in gen.RESOLUTION_POOL if str(r) != m0[1]] or [96]))}.get(
                    m0[0], m0[1][:-1] + 'x"' if m0[1].endswith('"') else (m0[1] + "1" if m0[1].isdigit() else m0[1]))
                d["meta"].insert(g.randint(0, len(d["meta"])), [m0[0], alt])
        if big_run and i == 0 and d["tracks"]:
            # one chart of a few thousand lines (sizes, counts and depths that the small texts
            # never reach); such runs have one client
            tr = d["tracks"][0]
            t_last = max([gr["tick"] for gr in tr[1]] + [0])
            for _n in range(g.choice([700, 1500, 2600])):
                t_last += g.choice([1, d["resolution"] // 4 + 1, d["resolution"]])
                lanes = sorted(g.sample(range(5), g.choice([1, 1, 2, 3])))
                tr[1].append({"tick": t_last, "lanes": lanes, "sus": g.choice([0, 0, 0, d["resolution"]]),
                              "tap": False, "forced": g.random() < 0.1})
            for _n in range(g.choice([0, 150, 400])):
                d["events"].append([(d["events"][-1][0] if d["events"] else 0) + g.choice([0, 1, 50]),
                                    g.choice(["lyric", "section", "text"]), g.choice(["la", "verse 2", "x y"])])
        docs.append(d)
        nl = g.choice(["\n", "\n", "\r\n"])
        if g.random() < (0.7 if sub == "callerfault" else 0.25):
            # unparsable lines in sync / events / instrument sections: the parse reports them, and
            # the reports are part of what must not depend on history or schedule
            secs = gen.sections(d)
            for _ in range(g.randint(1, 4)):
                si = g.randrange(1, len(secs))
                if secs[si][0] in [u[0] for u in d["unknown"]]:
                    continue
                line = g.choice(JUNK_LINES).replace("{t}", str(g.choice([0, 7, 480, 99999])))
                if g.random() < 0.4:
                    # a line that is VALID in another section kind of this or an earlier chart of
                    # the corpus, pasted here verbatim (a memo keyed by the text alone would
                    # carry the verdict from one section kind to the other)
                    pool_secs = [sx for dd in docs + [d] for sx in gen.sections(dd)[1:]
                                 if sx[1] and _family(sx[0]) != _family(secs[si][0])]
                    if pool_secs:
                        line = g.choice(g.choice(pool_secs)[1])
                secs[si][1].insert(g.randint(0, len(secs[si][1])), line)
            if g.random() < 0.3:
                # an open-note line placed first on a tick that also has fretted notes (accepted
                # today; whatever it yields, it yields it always)
                isecs = [sx for sx in secs[3:] if any(" = N " in ln for ln in sx[1])]
                if isecs:
                    sx = g.choice(isecs)
                    k0 = g.choice([i for i, ln in enumerate(sx[1]) if " = N " in ln])
                    sx[1].insert(k0, sx[1][k0].split(" = ")[0] + " = N 7 0")
            text = gen.render_sections(secs, newline=nl)
        else:
            text = gen.render(d, newline=nl)
        if g.random() < (0.6 if sub == "callerfault" else 0.25):
            # sections in another order (an instrument section may come first)
            secs_p = gen.sections(d) if "secs" not in dir() or True else None
            lines_all = text.split(nl)
            blocks: list[list[str]] = []
            for ln in lines_all:
                if ln.startswith("[") and ln.endswith("]"):
                    blocks.append([])
                if blocks:
                    blocks[-1].append(ln)
            if len(blocks) > 1 and all(b and b[-1] in ("}", "") for b in blocks):
                g.shuffle(blocks)
                text = nl.join(ln for b in blocks for ln in b if ln != "") + nl
        bom = g.random() < 0.2
        corpus.append({"id": i, "kind": "ok", "text": text, "bom": bom,
                       "headers": [t[0] for t in d["tracks"]], "resolution": d["resolution"]})
    # same-length siblings: another well-formed text with the same number of bytes (one tempo
    # value changed to another one with as many digits), for "file replaced in place" histories
    siblings: dict[int, int] = {}
    for i in range(n_ok):
        if g.random() < 0.5:
            d2 = copy.deepcopy(docs[i])
            ti = g.randrange(len(d2["tempos"]))
            old = d2["tempos"][ti][1]
            cands = [b for b in gen.BPM_POOL if len(str(b)) == len(str(old)) and b != old]
            if not cands:
                continue
            d2["tempos"][ti][1] = g.choice(cands)
            c0 = corpus[i]
            nl0 = "\r\n" if "\r\n" in c0["text"] else "\n"
            t2 = gen.render(d2, newline=nl0)
            if len(t2.encode("utf-8")) != len(c0["text"].encode("utf-8")) or t2 == c0["text"]:
                continue
            docs.append(d2)
            corpus.append({"id": len(corpus), "kind": "ok", "text": t2, "bom": c0["bom"],
                           "headers": list(c0["headers"]), "resolution": d2["resolution"],
                           "same_length_as": i})
            siblings[i] = len(corpus) - 1
    n_ok = len(corpus)
    for j in range(g.choice([0, 1, 1, 2])):
        kind, text, exc = gen.failing_variant(g, g.choice(docs))
        corpus.append({"id": n_ok + j, "kind": kind, "text": text, "bom": False, "headers": [],
                       "expect": exc})
    # one fixed access path per text for most ops (keeps the number of references small)
    access = []
    for c in corpus:
        if c["bom"]:
            a = p.choice([{"via": "path"}, {"via": "file", "reader": "textio", "encoding": "utf-8-sig",
                                            "newline": None},
                          {"via": "file", "reader": "stringio", "encoding": "utf-8-sig",
                           "newline": "\n"}])
        else:
            a = p.choice([
                {"via": "file", "reader": "stringio", "newline": "\n"},
                {"via": "file", "reader": "stringio", "newline": "\n"},
                {"via": "file", "reader": "stringio", "newline": None},
                {"via": "file", "reader": "stringio", "newline": ""},
                {"via": "path"}, {"via": "path"},
                {"via": "file", "reader": "textio", "newline": None, "encoding": "utf-8"},
                {"via": "file", "reader": "textio", "newline": "", "encoding": "utf-8-sig"},
                {"via": "file", "reader": "codecs", "encoding": "utf-8"},
                {"via": "file", "reader": "simtext"},
            ])
        access.append(a)
    n_clients = p.choice([1, 2, 2, 3, 3, 4])
    if sub == "long":
        # long histories without retained results: object ids get reused, memo tables fill up
        n_clients = p.choice([1, 1, 2])
    if sub == "churn":
        # results are dropped while other threads are in the middle of a parse, under the
        # write/shared-state biased schedule: whatever the library keeps about live charts
        # (weak references, pools, registries) changes under the running parse
        n_clients = p.choice([2, 2, 3])
    if big_run:
        n_clients = 1
    clients = []
    for ci in range(n_clients):
        ops = []
        for _ in range(p.randint(8, 16) if sub == "churn" else p.randint(1, 6) if sub != "long" else
                       (p.randint(20, 60) // n_clients if not big_run else p.randint(4, 8))):
            c = p.choice(corpus)
            op: dict[str, Any] = {"op": "parse", "text": c["id"], **access[c["id"]]}
            op["select"] = _gen_selection(p, c["headers"]) if c["kind"] == "ok" else None
            ops.append(op)
        clients.append(ops)
    knobs: dict[str, Any] = {}
    if p.random() < 0.5:
        # each caller thread keeps one selection object per distinct selection and passes the same
        # object to every parse
        knobs["reuse_selection_objects"] = True
    if n_clients == 1 and sub in ("none", "cache_clear", "long", "io") and p.random() < 0.8:
        # logging state is process history too: some parses happen while the application has
        # logging switched off (nothing is reported then; the chart is the same)
        for op in clients[0]:
            if p.random() < 0.5:
                op["logging_off"] = True
    if siblings and sub in ("none", "cache_clear", "long") and p.random() < 0.5:
        # disk history: the same path is replaced in place by another text of the same length
        # (and, the simulation having no clock, the same modification time) between two parses
        knobs["path_slots"] = 2
        for ci, ops in enumerate(clients):
            for op in ops:
                if op["via"] == "path":
                    op["slot"] = p.randrange(2)
            if p.random() < 0.7:
                a = p.choice(sorted(siblings))
                b = siblings[a]
                if p.random() < 0.5:
                    a, b = b, a
                slot = p.randrange(2)
                pos = p.randint(0, len(ops))
                pair = [{"op": "parse", "text": t, "via": "path", "select": None, "slot": slot}
                        for t in (a, b)]
                if p.random() < 0.3:
                    pair.insert(1, {"op": "parse", "text": p.choice(corpus)["id"], "via": "path",
                                    "select": None, "slot": 1 - slot})
                ops[pos:pos] = pair
    sh = rng.stream(seed, "shared-path")
    if len(clients) > 1 and sub in ("none", "churn", "cache_clear") and sh.random() < 0.3:
        # ONE path that every caller thread (re)writes and loads: overlapping loads of the same
        # file, the file replaced while another thread's load of it is in flight.  A load returns
        # the parse of SOME content the path held during the load (the caller's own, or what
        # another thread wrote meanwhile)
        knobs["shared_path"] = 1
        pool = sh.sample([c["id"] for c in corpus], min(len(corpus), sh.choice([1, 2, 2, 3])))
        for ops in clients:
            for _ in range(sh.choice([1, 2, 3])):
                ops.insert(sh.randint(0, len(ops)), {"op": "parse", "text": sh.choice(pool), "via": "path",
                                                      "select": None, "shared_slot": 0})
    all_ops = [(ci, k, op) for ci, ops in enumerate(clients) for k, op in enumerate(ops)]
    for _ci, _k, op in all_ops:
        if op["via"] == "path" and op.get("slot") is None and op.get("shared_slot") is None and p.random() < 0.06:
            op["special_file"] = True  # a FIFO / pipe / procfs-style file: stat says size 0
    if sub == "io":
        for _ci, _k, op in all_ops:
            if op["via"] == "path" or op.get("reader") in ("textio", "codecs", "simtext"):
                data = _bytes_of(corpus[op["text"]])
                op["io"] = parseop.gen_io_tape(io_r, data)
    elif sub == "eio":
        cand = [op for _ci, _k, op in all_ops if op["via"] == "path" or op.get("reader") in ("textio", "codecs")]
        if not cand:
            op = all_ops[f.randrange(len(all_ops))][2]
            op.clear()
            op.update({"op": "parse", "text": 0, "via": "path", "select": None})
            cand = [op]
        for op in f.sample(cand, min(len(cand), f.randint(1, 2))):
            op["io"] = {"reads": [f.choice([1, 16, 64, 4096])], "eio_at": f.randint(1, 4)}
            op["eio"] = True
    elif sub == "abort" and f.random() < 0.3:
        # crash points aimed at COLD code: lines that only the first parse of a process executes
        # (lazy initialisation, cache fills); found per run by tracing two parses in a pristine
        # forked process.  Armed on the first operation of every client.
        knobs["cold_abort"] = True
        for ops in clients:
            ops[0]["abort"] = {"cold": True, "at": f.choice([1, 1, 2, 3, 5, 8, 13, 21, 40]),
                               "exc": f.choice(["SimAbort", "MemoryError", "MemoryError"])}
    elif sub == "abort":
        for _ci, _k, op in f.sample(all_ops, min(len(all_ops), f.randint(1, 3))):
            op["abort"] = {"at": int(f.choice([f.randint(1, 50), f.randint(1, 800),
                                               f.randint(1, 2500), f.randint(1, 2500),
                                               f.randint(1, 6000)])),
                           "exc": f.choice(["SimAbort", "MemoryError", "MemoryError", "OSError", "RuntimeError"])}
            if f.random() < 0.5:
                # targeted: k-th pre-emption point inside frames of a given family of functions
                op["abort"]["in"] = f.choice(ABORT_TARGETS)
                op["abort"]["at"] = f.choice([1, 1, 2, 3, 5, 8, 13, 30])
    elif sub == "callerfault":
        # faults thrown by caller-supplied objects in the middle of a parse: the application's
        # log handler fails on the k-th record, the selection sequence raises on its k-th access,
        # the reader raises from read()
        for _ci, _k, op in f.sample(all_ops, min(len(all_ops), f.randint(1, 4))):
            exc = f.choice(["SimAbort", "MemoryError", "MemoryError", "KeyboardInterrupt", "OSError",
                            "RuntimeError"])
            kind = f.choice(["log", "log", "select", "select", "reader", "reader", "reader", "reenter", "reenter"])
            if kind == "reenter":
                # the application's log handler parses another chart (same thread, nested inside
                # the running parse) when it receives the k-th record
                nested = f.choice(corpus)
                op["log_reenter"] = {"at": f.choice([1, 1, 2, 3]),
                                     "nested": {"op": "parse", "text": nested["id"], "via": "file",
                                                "reader": "stringio", "newline": "\n", "select": None,
                                                **({"encoding": "utf-8-sig"} if nested["bom"] else {})}}
            elif kind == "log":
                op["log_fault"] = {"at": f.choice([1, 1, 2, 3]), "exc": exc}
            elif kind == "select":
                if op.get("select") is None:
                    c = corpus[op["text"]]
                    pool = [list(gen.HEADERS[h]) for h in c["headers"]] or [list(gen.HEADERS["ExpertSingle"])]
                    op["select"] = {"form": "list", "pairs": sorted(pool)[:f.randint(1, len(pool))]}
                op["sel_fault"] = {"at": f.choice([1, 1, 2, 3, 5]), "exc": exc}
            else:
                if corpus[op["text"]]["bom"]:
                    op["log_fault"] = {"at": 1, "exc": exc}
                else:
                    for kk in ("newline", "encoding", "io"):
                        op.pop(kk, None)
                    op.update({"via": "file", "reader": "simtext"})
                    txt = corpus[op["text"]]["text"]
                    starts = [i + 1 for i, ch in enumerate(txt[:-1]) if ch == "\n" and txt[i + 1] == "["]
                    op["reader_fault"] = {"at": f.choice([1, 1, 1, 2]),
                                          "exc": f.choice([exc, "InterruptedError", "InterruptedError", "TimeoutError",
                                                           "BlockingIOError"]),
                                          # what the failing read had already consumed: nothing, a
                                          # few characters, or everything up to a section boundary
                                          "consume": f.choice([0, 1, 17, 200] + starts + starts)}
    elif sub == "cache_clear":
        knobs["cache_clear"] = sorted({(ci, k) for ci, k, _ in f.sample(all_ops, min(len(all_ops), f.randint(1, 4)))})
        knobs["cache_clear"] = [list(x) for x in knobs["cache_clear"]]
    total_ops = len(all_ops)
    if n_clients == 1:
        schedule: dict[str, Any] = {"mode": "sequential", "seed": s.getrandbits(32)}
    else:
        m = s.random()
        if m < 0.15:
            schedule = {"mode": "sequential", "seed": s.getrandbits(32), "p_boundary": 0.6}
        elif m < 0.75:
            schedule = {"mode": "geometric", "seed": s.getrandbits(32),
                        "gap": s.choice([3, 10, 30, 100, 1000])}
        else:
            schedule = {"mode": "pct", "seed": s.getrandbits(32), "d": s.choice([1, 2, 3]),
                        "est_steps": max(200, total_ops * s.choice([500, 1500, 3000]))}
    if sub == "churn":
        knobs["retain_results"] = False
        schedule = {"mode": "writes", "seed": s.getrandbits(32), "p": s.choice([0.3, 0.6, 0.9]),
                    "hold": s.choice([1000, 4000, 8000])}
    if sub == "long" and p.random() < 0.5:
        # the caller keeps every exception for an error report, and the process may hold only a
        # few files open at a time: a parse that fails must not leave its file open
        knobs["retain_errors"] = True
        knobs["max_open_files"] = p.choice([4, 8, 12])
        failing = [c for c in corpus if c["kind"] != "ok"] or [corpus[-1]]
        for ops in clients:
            for _ in range(p.randint(8, 16)):
                ops.insert(p.randint(0, len(ops)), {"op": "parse", "text": p.choice(failing)["id"],
                                                    "via": "path", "select": None})
    if sub == "long":
        knobs["retain_results"] = False
        # allocator shifts between the parses of a long history: which freed address the next
        # chart's objects receive varies from operation to operation instead of hinging on the
        # heap state the run inherited
        for _ci, _k, op in all_ops:
            op["shift"] = p.choice([0, 1, 2, 3, 4, 5, 6, 8, 11, 16])
    if sub == "churn":
        pass
    elif schedule["mode"] != "sequential" and s.random() < 0.25:
        # write-biased schedule: switch right after heap writes, then let the other thread run long
        schedule = {"mode": "writes", "seed": s.getrandbits(32), "p": s.choice([0.1, 0.3, 0.6]),
                    "hold": s.choice([20, 200, 1000, 4000])}
    elif schedule["mode"] != "sequential" and s.random() < 0.2:
        # knob: pre-empt between bytecodes (sys.monitoring) instead of between source lines
        schedule["granularity"] = "opcode"
        if "est_steps" in schedule:
            schedule["est_steps"] *= 4
        for _ci, _k, op in all_ops:
            if op.get("abort") and not op["abort"].get("in") and not op["abort"].get("cold"):
                op["abort"]["at"] *= 4
    plan: dict[str, Any] = {"property": PROP, "seed": seed, "sub_batch": sub, "corpus": corpus,
                            "clients": clients, "schedule": schedule, "knobs": knobs}
    if p.random() < 0.5:
        # the same text through the plainest access path (one in-memory read) must give what the
        # run's own access path gives: the chart is a function of the text, not of the reader
        ci0 = p.randrange(len(clients))
        plan["cross"] = [ci0, p.randrange(len(clients[ci0]))]
    if index % FRESH_EVERY[tier] == 0:
        plan["fresh"] = {"op": [0, 0], "hashseed": p.randint(1, 2**31 - 1),
                         "flavour": p.choice(sorted(env.FLAVOURS))}
    return plan


def _bytes_of(c: dict[str, Any]) -> bytes:
    b = c["text"].encode("utf-8")
    return (b"\xef\xbb\xbf" + b) if c.get("bom") else b


# ----------------------------------------------------------------------------------------------
# references
# ----------------------------------------------------------------------------------------------

def _reference(op: dict[str, Any], data: bytes) -> dict[str, Any]:
    """One fault-free parse in a pristine process (runs in a forked grandchild)."""
    from detsim import world
    from detsim.observe import outcome

    world.reference_process_state()
    fs = simfs.SimFS(os.path.join(env.scratch(), "simfs", f"ref-{os.getpid()}"))
    fs.install()
    try:
        out = outcome(lambda: parseop.do_parse(fs, op, data, "ref", faults=False))
    finally:
        fs.uninstall()
    out["log"] = world.drain_log()
    import shutil

    shutil.rmtree(fs.root, ignore_errors=True)
    return out


def _cold_lines(op: dict[str, Any], data: bytes) -> list[list[Any]]:
    """Lines of the package that the FIRST parse of a process executes and the second does not
    (runs in a pristine forked grandchild): lazy initialisation, cache fills."""
    import sys

    from detsim import world

    world.install_log_sink()
    prefix = os.path.join(env.PKG_DIR, "")
    seen: list[set[tuple[str, int]]] = [set(), set()]
    cur = [0]

    def local(frame: Any, event: str, arg: Any) -> Any:
        if event == "line":
            seen[cur[0]].add((os.path.basename(frame.f_code.co_filename), frame.f_lineno))
        return local

    def glob(frame: Any, event: str, arg: Any) -> Any:
        return local if frame.f_code.co_filename.startswith(prefix) else None

    fs = simfs.SimFS(os.path.join(env.scratch(), "simfs", f"cold-{os.getpid()}"))
    fs.install()
    try:
        for i in (0, 1):
            cur[0] = i
            sys.settrace(glob)
            try:
                parseop.do_parse(fs, op, data, f"cold{i}", faults=False)
            except BaseException:  # noqa: BLE001
                pass
            finally:
                sys.settrace(None)
    finally:
        fs.uninstall()
    import shutil

    shutil.rmtree(fs.root, ignore_errors=True)
    return [list(x) for x in sorted(seen[0] - seen[1])]


def _fresh_reference(op: dict[str, Any], data: bytes, hashseed: int,
                     flavour: str = "default") -> dict[str, Any]:
    d = os.path.join(env.scratch(), "fresh")
    os.makedirs(d, exist_ok=True)
    path = os.path.join(d, f"f-{os.getpid()}.chart")
    with open(path, "wb") as fh:
        fh.write(data)
    req = {"path": path, "select": op.get("select"), "via": op.get("via"),
           "logging_off": bool(op.get("logging_off")),
           "reader": op.get("reader"), "newline": op.get("newline"), "encoding": op.get("encoding")}
    p = subprocess.run([env.PYTHON] + env.flavour_flags(flavour) + ["-m", "detsim.freshref"],
                       input=json.dumps(req).encode("utf-8"),
                       capture_output=True, timeout=120,
                       env=env.fresh_interpreter_env(hashseed, flavour), cwd=env.VERIF_ROOT)
    os.unlink(path)
    if p.returncode != 0:
        raise HarnessError(f"fresh interpreter failed: {p.stderr.decode('utf-8', 'replace')[-800:]}")
    return json.loads(p.stdout.decode("ascii"))


# ----------------------------------------------------------------------------------------------
# execution
# ----------------------------------------------------------------------------------------------

def _find_caches() -> list[Any]:
    """Every functools.lru_cache wrapper defined in the package (found generically)."""
    import sys

    found = []
    seen = set()
    for name in sorted(sys.modules):
        if name == "chartparse" or name.startswith("chartparse."):
            mod = sys.modules[name]
            stack = [mod]
            while stack:
                o = stack.pop()
                for k in sorted(vars(o)):
                    v = vars(o)[k]
                    if hasattr(v, "cache_clear") and hasattr(v, "cache_info") and id(v) not in seen:
                        seen.add(id(v))
                        found.append(v)
                    elif isinstance(v, type) and getattr(v, "__module__", "") == name and id(v) not in seen:
                        seen.add(id(v))
                        stack.append(v)
    return found


def execute(plan: dict[str, Any]) -> dict[str, Any]:
    from detsim import world

    corpus = {c["id"]: c for c in plan["corpus"]}
    data_of = {i: _bytes_of(c) for i, c in corpus.items()}
    violations: list[dict[str, Any]] = []
    probes: dict[str, int] = {}
    shared_writes: list[Any] = []  # texts written to the path all caller threads share, in order
    fired: dict[str, int] = {}
    configured: dict[str, int] = {}
    sub = plan.get("sub_batch", "none")

    def config_name() -> str:
        return {"none": "history-only" if plan["schedule"].get("mode") == "sequential" else "scheduled",
                "io": "io", "eio": "eio", "abort": "abort", "cache_clear": "cache-clear",
                "long": "long-history", "callerfault": "caller-fault", "churn": "churn"}[sub]

    def vio(symptom: str, detail: str) -> None:
        violations.append({"sig": f"C17/{symptom}/{config_name()}", "detail": detail})

    # ---- references, each in its own process forked from this still-pristine image
    refs: dict[str, dict[str, Any]] = {}
    harness_error = None
    fresh_refs = 0
    try:
        for ops in plan["clients"]:
            for op0 in ops:
                for op in [op0] + ([op0["log_reenter"]["nested"]] if op0.get("log_reenter") else []):
                    key = json.dumps(parseop.access_key(op))
                    if key not in refs:
                        refs[key] = runner.in_fork(_reference, op, data_of[op["text"]], timeout=120)
        cr = plan.get("cross")
        if cr and cr[0] < len(plan["clients"]) and cr[1] < len(plan["clients"][cr[0]]):
            op = plan["clients"][cr[0]][cr[1]]
            c = corpus[op["text"]]
            plain = {"op": "parse", "text": op["text"], "via": "file", "reader": "stringio",
                     "newline": "\n", "select": op.get("select"),
                     **({"logging_off": True} if op.get("logging_off") else {}),
                     **({"encoding": "utf-8-sig"} if c.get("bom") else {})}
            if parseop.access_key(plain) != parseop.access_key(op):
                pref = runner.in_fork(_reference, plain, data_of[op["text"]], timeout=120)
                mine = refs[json.dumps(parseop.access_key(op))]
                probes["cross_access_references"] = 1
                if _nolog(pref) != _nolog(mine):
                    vio("access-path-differs",
                        f"text {op['text']} ({c['kind']}): read via {parseop.access_key(op)[2:]} a "
                        f"fresh-process parse gives {_short(mine)} but via one in-memory read it gives "
                        f"{_short(pref)}")
        fr = plan.get("fresh")
        import sys as _sys

        if not fr and _sys.flags.optimize:
            # this launcher runs under python -O / -OO: one operation per run is also computed in
            # a fresh interpreter in the DEFAULT mode (what a text yields must not depend on the
            # interpreter mode); an operation on a text with an open note is preferred
            pick = [0, 0]
            for ci_, ops_ in enumerate(plan["clients"]):
                for k_, op_ in enumerate(ops_):
                    if " = N 7 " in corpus[op_["text"]]["text"]:
                        pick = [ci_, k_]
            fr = {"op": pick, "hashseed": 1 + int(plan["seed"]) % 2147483000, "flavour": "default"}
        if fr:
            ci, k = fr["op"]
            if ci < len(plan["clients"]) and k < len(plan["clients"][ci]):
                op = plan["clients"][ci][k]
                key = json.dumps(parseop.access_key(op))
                fo = _fresh_reference(op, data_of[op["text"]], fr["hashseed"], fr.get("flavour", "default"))
                fresh_refs = 1
                probes["fresh_interpreter_env:" + fr.get("flavour", "default")] = 1
                if _nolog(fo) != _nolog(refs[key]):
                    vio("fresh-interpreter-disagrees",
                        f"text {op['text']} via {parseop.access_key(op)[2:]}: forked reference "
                        f"{_short(refs[key])} but fresh interpreter (PYTHONHASHSEED="
                        f"{fr['hashseed']}, environment {fr.get('flavour', 'default')}) {_short(fo)}")
    except (runner.ChildFailure, HarnessError, subprocess.TimeoutExpired) as e:
        harness_error = f"reference computation failed: {e}"

    cold_lines: list[list[Any]] | None = None
    if harness_error is None and (plan.get("knobs") or {}).get("cold_abort"):
        try:
            op0 = plan["clients"][0][0]
            cold_lines = runner.in_fork(_cold_lines, {k: v for k, v in op0.items() if k != "abort"},
                                        data_of[op0["text"]], timeout=120)
            probes["cold_only_lines"] = len(cold_lines)
        except runner.ChildFailure as e:
            harness_error = f"cold-line computation failed: {e}"
    if harness_error is not None:
        return {"violations": [], "digest": "", "evals": 1, "harness_error": harness_error}

    # ---- the simulation
    world.install_log_sink()
    fs = simfs.SimFS(os.path.join(env.scratch(), "simfs", f"run-{os.getpid()}"))
    fs.install()
    n_clients = len(plan["clients"])
    sched = Scheduler(plan["schedule"], n_clients, env.PKG_DIR,
                      preempt_lines=not env.package_uses_locks_or_threads())
    first_result: dict[str, Any] = {}
    retain = (plan.get("knobs") or {}).get("retain_results", True)
    clear_at = {tuple(x) for x in (plan.get("knobs") or {}).get("cache_clear", [])}
    caches = _find_caches() if clear_at else []
    n_ops = 0
    texts_used = set()
    shift_keep: dict[int, Any] = {}
    kept_errors: list[BaseException] = []
    if (plan.get("knobs") or {}).get("max_open_files"):
        fs.max_open = int(plan["knobs"]["max_open_files"])

    def body_for(ci: int) -> Any:
        ops = plan["clients"][ci]

        def body(client: Any) -> None:
            nonlocal n_ops
            if (plan.get("knobs") or {}).get("reuse_selection_objects"):
                world.use_selection_pool({})
            for k, op in enumerate(ops):
                if (ci, k) in clear_at:
                    import gc
                    import re

                    for c in caches:
                        c.cache_clear()
                    re.purge()      # the regex module's own cache of compiled patterns
                    gc.collect()    # finalisers / weak references run now rather than later
                    fired["cache_clear"] = fired.get("cache_clear", 0) + 1
                key = json.dumps(parseop.access_key(op))
                ref = refs[key]
                data = data_of[op["text"]]
                texts_used.add(op["text"])
                abort = op.get("abort")
                if abort and abort.get("cold"):
                    abort = {**abort, "cold_lines": cold_lines or []}
                if abort:
                    configured["abort"] = configured.get("abort", 0) + 1
                if op.get("eio"):
                    configured["eio"] = configured.get("eio", 0) + 1
                # runtime copy of the op carrying the exception objects of caller-object faults
                op_rt = op
                cf_exc: BaseException | None = None
                cf_kind = None
                if op.get("sel_fault"):
                    cf_kind, cf_exc = "select", make_abort_exc(op["sel_fault"]["exc"])
                    op_rt = {**op, "select": {**op["select"], "fault": {
                        "at": op["sel_fault"]["at"], "exc_obj": cf_exc}}}
                elif op.get("reader_fault"):
                    cf_kind, cf_exc = "reader", make_abort_exc(op["reader_fault"]["exc"])
                    op_rt = {**op, "reader_fault": {"at": op["reader_fault"]["at"], "exc_obj": cf_exc,
                                                    "consume": op["reader_fault"].get("consume", 0)}}
                elif op.get("log_fault"):
                    cf_kind, cf_exc = "log", make_abort_exc(op["log_fault"]["exc"])
                if cf_kind:
                    configured["caller_" + cf_kind] = configured.get("caller_" + cf_kind, 0) + 1
                if op.get("shift") is not None:
                    shift_keep[ci] = None
                    shift_keep[ci] = world.heap_shift(int(op["shift"]))
                stored_path = fs.path(parseop.stored_name(op, f"c{ci}o{k}") + ".chart")
                eio_before = fs.eio_raised.count(stored_path)
                if op.get("logging_off"):
                    probes["parses_with_logging_off"] = probes.get("parses_with_logging_off", 0) + 1
                if op.get("slot") is not None:
                    probes["parses_of_a_replaced_path"] = probes.get("parses_of_a_replaced_path", 0) + 1
                sched.begin_op(client, k, abort)
                if op.get("shared_slot") is not None:
                    # this caller (re)writes the path, then loads it; no pre-emption point lies
                    # between this record and the write itself (harness code is not traced)
                    shared_writes.append(op["text"])
                    shared_from = len(shared_writes) - 1
                    probes["loads_of_the_shared_path"] = probes.get("loads_of_the_shared_path", 0) + 1
                client.log_fault = ({"at": int(op["log_fault"]["at"]), "exc": cf_exc, "seen": 0,
                                     "fired": False} if cf_kind == "log" else None)
                nested_out: list[Any] = []
                if op.get("log_reenter"):
                    nop = op["log_reenter"]["nested"]

                    def reenter(nop: Any = nop, tag: str = f"c{ci}o{k}n") -> None:
                        # runs inside logging's handler lock: never pre-empt here (a baton
                        # scheduler must not switch away from a thread that holds a real lock)
                        with sched.atomic(client):
                            try:
                                nested_out.append(("ok", parseop.do_parse(fs, nop, data_of[nop["text"]], tag)))
                            except HarnessError:
                                raise
                            except BaseException as e:  # noqa: BLE001
                                nested_out.append(("exc", e))

                    client.log_fault = {"at": int(op["log_reenter"]["at"]), "exc": None, "seen": 0,
                                        "fired": False, "reenter": reenter}
                    configured["reentrant_handler"] = configured.get("reentrant_handler", 0) + 1
                injected = client.abort_exc
                chart = None
                err: BaseException | None = None
                try:
                    chart = parseop.do_parse(fs, op_rt, data, f"c{ci}o{k}")
                except HarnessError:
                    raise
                except BaseException as e:  # noqa: BLE001
                    err = e
                sched.end_op(client)
                n_ops += 1
                if err is not None and (plan.get("knobs") or {}).get("retain_errors"):
                    kept_errors.append(err)
                with sched.atomic(client):
                    log = list(client.log)
                    cf_fired = False
                    if op.get("log_reenter"):
                        client.log_fault = None
                        for nk, nv in nested_out:
                            fired["nested_parse_in_log_handler"] = fired.get("nested_parse_in_log_handler", 0) + 1
                            nref = refs[json.dumps(parseop.access_key(op["log_reenter"]["nested"]))]
                            if nk == "exc":
                                nout: dict[str, Any] = {"kind": "exc", "exc": exc_token(nv)}
                            else:
                                try:
                                    nout = {"kind": "ok", "digest": rng.digest(observe_chart(nv))}
                                except BaseException as e:  # noqa: BLE001
                                    nout = {"kind": "observe-failed", "exc": exc_token(e)}
                            if {x: y for x, y in nref.items() if x != "log"} != nout:
                                vio("nested-parse-differs",
                                    f"client {ci} op {k}: a parse of text {op['log_reenter']['nested']['text']} "
                                    f"made by the log handler INSIDE the parse of text {op['text']} gave "
                                    f"{_short(nout)} but a fresh-process parse gives {_short(nref)}")
                    if cf_kind == "log":
                        cf_fired = bool(client.log_fault and client.log_fault["fired"])
                        client.log_fault = None
                    elif cf_kind == "select":
                        cf_fired = world.selection_fault_fired()
                    elif cf_kind == "reader":
                        rd = op_rt["reader_fault"].get("reader")
                        cf_fired = bool(rd is not None and rd.fault_fired)
                    if cf_fired:
                        fk = f"caller_{cf_kind}_raises"
                        fired[fk] = fired.get(fk, 0) + 1
                        sched.record("op", ci, k, "caller-fault", cf_kind)
                        if _judge_faulted(err, cf_exc, chart, ref, probes):
                            vio("wrong-chart-after-swallowed-fault",
                                f"client {ci} op {k} text {op['text']}: the caller-supplied {cf_kind} "
                                f"object raised {type(cf_exc).__name__} during the parse; it was swallowed "
                                f"and the parse returned a chart that differs from the fresh-process parse")
                        continue
                    aborted = client.abort_fired_at is not None
                    if aborted:
                        kind = "abort_" + abort["exc"]
                        fired[kind] = fired.get(kind, 0) + 1
                        if abort.get("cold"):
                            fired["abort_on_cold_line"] = fired.get("abort_on_cold_line", 0) + 1
                        where = client.abort_fired_at.split(":")[-1]
                        probes["abort_in:" + where] = probes.get("abort_in:" + where, 0) + 1
                        sched.record("op", ci, k, "aborted", client.abort_fired_at)
                        if _judge_faulted(err, injected, chart, ref, probes):
                            vio("wrong-chart-after-swallowed-fault",
                                f"client {ci} op {k} text {op['text']}: {abort['exc']} injected at "
                                f"{client.abort_fired_at} (op step {abort['at']}) was swallowed and the "
                                f"parse returned a chart that differs from the fresh-process parse")
                        continue
                    if op.get("eio") and fs.eio_raised.count(stored_path) > eio_before:
                        ok = isinstance(err, OSError) and err.errno == errno.EIO
                        fired["eio"] = fired.get("eio", 0) + 1
                        sched.record("op", ci, k, "eio", ok)
                        if _judge_faulted(err, err if ok else None, chart, ref, probes):
                            vio("wrong-chart-after-swallowed-fault",
                                f"client {ci} op {k} text {op['text']}: EIO injected while reading was "
                                f"swallowed and the parse returned a chart that differs from the "
                                f"fresh-process parse")
                        continue
                    if err is not None:
                        out: dict[str, Any] = {"kind": "exc", "exc": exc_token(err)}
                    else:
                        try:
                            out = {"kind": "ok", "digest": rng.digest(observe_chart(chart))}
                        except BaseException as e:  # noqa: BLE001
                            out = {"kind": "observe-failed", "exc": exc_token(e)}
                    out["log"] = log
                    sched.record("op", ci, k, rng.digest(out))
                    if op.get("shared_slot") is not None and out != ref:
                        # what the path held during this load: the caller's own text and whatever
                        # other threads wrote while the load was in flight
                        for other_text in shared_writes[shared_from + 1:]:
                            oref = refs.get(json.dumps(parseop.access_key({**op, "text": other_text})))
                            if oref is not None and {x: y for x, y in oref.items() if x != "log"} == {
                                    x: y for x, y in out.items() if x != "log"}:
                                probes["shared_path_load_saw_another_threads_content"] = probes.get(
                                    "shared_path_load_saw_another_threads_content", 0) + 1
                                ref = oref
                                key = json.dumps(parseop.access_key({**op, "text": other_text}))
                                break
                    if out != ref and {x: y for x, y in out.items() if x != "log"} == {
                            x: y for x, y in ref.items() if x != "log"}:
                        # same chart, other reports: the statement speaks of the chart only (a
                        # correct result cache, for one, does not report a second time) - counted
                        probes["reports_differ_from_reference"] = probes.get("reports_differ_from_reference", 0) + 1
                        out = ref
                    if out != ref:
                        if out["kind"] != ref["kind"]:
                            sym = "outcome-kind-differs"
                        elif out["kind"] == "exc" and out["exc"] != ref["exc"]:
                            sym = "exception-differs"
                        elif out.get("digest") != ref.get("digest"):
                            sym = "digest-differs"
                        else:
                            sym = "warnings-differ"
                        vio(sym, f"client {ci} op {k} text {op['text']} ({corpus[op['text']]['kind']}, "
                                 f"select={op.get('select')}): got {_short(out)} but a fresh-process "
                                 f"parse gives {_short(ref)}")
                    elif chart is not None and retain:
                        prev = first_result.setdefault(key, chart)
                        if prev is not chart:
                            try:
                                same = bool(prev == chart) and bool(chart == prev)
                            except BaseException as e:  # noqa: BLE001
                                same = False
                            probes["eq_compared"] = probes.get("eq_compared", 0) + 1
                            if not same:
                                vio("eq-false", f"client {ci} op {k} text {op['text']}: result does "
                                                "not compare equal to an earlier result for the same "
                                                "text and selection")
                            elif hashes(prev) != hashes(chart):
                                vio("hash-differs", f"client {ci} op {k} text {op['text']}: the events of "
                                                    "two equal results for the same text hash differently")

        return body

    try:
        sched.run([body_for(i) for i in range(n_clients)])
    except SimDeadlock as e:
        # threads and locks the library made itself, every one of them scheduled by the simulator:
        # under this schedule an operation never returns, under the reference's it does
        vio("deadlock", f"{e} (the same operations complete in a fresh process)")
    except HarnessError as e:
        harness_error = str(e)
    finally:
        fs.uninstall()
    # Not a verdict (DESIGN.md 11.2, second false alarm): no property speaks about file handles,
    # and an abort delivered on the line event of the ``with`` statement's normal-exit clean-up
    # leaves the handle to the garbage collector on ANY Python program.
    probes["handles_left_open_at_end_of_run"] = fs.unclosed()
    world.drain_log()
    import shutil

    shutil.rmtree(fs.root, ignore_errors=True)
    for k in ("short_read", "eintr", "split_crlf", "split_bom", "split_multibyte", "forced_split"):
        if fs.stats.get(k):
            fired[k] = fired.get(k, 0) + fs.stats[k]
    probes["opens_through_seam"] = len(fs.opened)
    total_fired = sum(fired.values())
    nontrivial = n_ops >= 2 and len(texts_used) >= 2 and (sched.mid_op_switches >= 1 or total_fired >= 1)
    sched.record("violations", [v["sig"] for v in violations])
    return {
        "violations": violations,
        "digest": sched.events.hexdigest()[:32],
        "evals": 1,
        "nontrivial": [rng.digest(plan)] if nontrivial else [],
        "probes": {**probes, **sched.probes},
        "faults_fired": fired,
        "faults_configured": configured,
        "interleaving": sched.interleaving.hexdigest()[:32],
        "loc_pairs": sorted(sched.loc_pairs)[:50],
        "sim_steps": sched.global_step,
        "ops": n_ops,
        "switches": sched.switches,
        "mid_op_switches": sched.mid_op_switches,
        "sched_mode": sched.mode,
        "knobs": {"opcode_granularity": 1} if sched.granularity == "opcode" else {},
        "sub_batch": sub,
        "fresh_refs": fresh_refs,
        "counters": {"references_computed": len(refs)},
        "sample": {"sub_batch": sub, "schedule": plan["schedule"],
                   "corpus": [[c["kind"], c.get("resolution"), c["headers"], c["bom"]] for c in plan["corpus"]],
                   "clients": [[{k: v for k, v in op.items() if k != "io"} for op in ops[:3]]
                               for ops in plan["clients"]]},
        "harness_error": harness_error,
        "explicit_schedule": sched.explicit_schedule(),
    }


def _judge_faulted(err: BaseException | None, injected: BaseException | None, chart: Any,
                   ref: dict[str, Any], probes: dict[str, int]) -> bool:
    """Relaxed oracle for an operation during which a fault was injected: it may fail (with the
    injected exception or any other one), it must never return WRONG data.  True = violation."""
    if err is not None:
        if err is not injected:
            probes["fault_converted_to_other_exception"] = probes.get("fault_converted_to_other_exception", 0) + 1
        return False
    try:
        same = ref.get("kind") == "ok" and rng.digest(observe_chart(chart)) == ref.get("digest")
    except BaseException:  # noqa: BLE001
        same = False
    if same:
        probes["fault_swallowed_result_correct"] = probes.get("fault_swallowed_result_correct", 0) + 1
        return False
    return True


def _same_failure(err: BaseException, ref: dict[str, Any]) -> bool:
    return ref.get("kind") == "exc" and ref.get("exc") == exc_token(err)


def _nolog(o: dict[str, Any]) -> dict[str, Any]:
    return {k: v for k, v in o.items() if k != "log"}


def _short(o: dict[str, Any]) -> str:
    return json.dumps(o, ensure_ascii=True)[:400]


# ----------------------------------------------------------------------------------------------
# minimisation
# ----------------------------------------------------------------------------------------------

def shrink(plan: dict[str, Any]):
    clients = plan["clients"]
    base = {k: v for k, v in plan.items() if k != "fresh"} if "fresh" in plan else plan
    if "fresh" in plan:
        yield base
    if len(clients) > 1:
        for i in range(len(clients)):
            yield {**base, "clients": clients[:i] + clients[i + 1:], "knobs": {}}
            yield {**base, "clients": clients[:i] + clients[i + 1:]}
    for ci, ops in enumerate(clients):
        n = len(ops)
        if n > 1:
            for i in range(n):
                yield {**base, "clients": clients[:ci] + [ops[:i] + ops[i + 1:]] + clients[ci + 1:]}
    # drop faults / knobs
    for ci, ops in enumerate(clients):
        for k, op in enumerate(ops):
            for fk in ("abort", "io", "eio", "log_fault", "log_reenter", "sel_fault", "reader_fault", "slot", "logging_off", "select"):
                if op.get(fk) is not None:
                    op2 = {a: b for a, b in op.items() if a != fk}
                    if fk == "select":
                        op2["select"] = None
                        op2.pop("sel_fault", None)
                    if fk == "io":
                        op2.pop("eio", None)
                    yield {**base, "clients": clients[:ci] + [ops[:k] + [op2] + ops[k + 1:]] + clients[ci + 1:]}
    if (plan.get("knobs") or {}).get("cache_clear"):
        yield {**base, "knobs": {}}
    yield from minimize.shrink_schedule(base)
    # smaller texts: drop body lines of used texts
    used = {op["text"] for ops in clients for op in ops}
    for ci_, c in enumerate(plan["corpus"]):
        if c["id"] not in used:
            continue
        sep = "\r\n" if "\r\n" in c["text"] else "\n"
        lines = c["text"].split(sep)
        body = [i for i, ln in enumerate(lines) if ln.startswith("  ") and "Resolution" not in ln]
        if len(body) > 6:
            h = len(body) // 2
            for part in (body[:h], body[h:]):
                keep = [ln for i, ln in enumerate(lines) if i not in set(part)]
                yield {**base, "corpus": plan["corpus"][:ci_] + [{**c, "text": sep.join(keep)}] + plan["corpus"][ci_ + 1:]}
        for i in body[:60]:
            keep = lines[:i] + lines[i + 1:]
            yield {**base, "corpus": plan["corpus"][:ci_] + [{**c, "text": sep.join(keep)}] + plan["corpus"][ci_ + 1:]}
