"""C11 — lookup hints are invisible; timestamps are never silently misplaced.

(a) session : clients on ONE shared tempo map issue timestamp_at_tick(t, start_iteration_index=h)
              where h comes from the history (0, the index returned by the previous / an earlier
              query, that + 1, len-1, len, len+1) under the deterministic scheduler.  Oracle =
              governing-index model g(t) = max{i : tick_i <= t}: h <= g(t) => same (timestamp,
              index) as the un-hinted query and index == g(t); h > g(t), h >= len or t < 0 =>
              ValueError.
(b) reorder : record reorder / swap / dup / drop / move faults on every section body of a stored
              chart; the parse raises ValueError, or every stored timestamp (all event kinds)
              equals the un-hinted query for its tick and every note end time equals the
              un-hinted query for its end tick.
(c) callsite: BPMEvents.timestamp_at_tick is wrapped at class level during every parse of (b) and
              of the undamaged file: each real call that returned is re-evaluated with lowered
              hints and must give the identical result; probes count call sites reached with a
              hint > 0 per caller.
"""

from __future__ import annotations

import copy
from typing import Any

from detsim import env, gen, minimize, monitors, rng
from detsim.observe import all_events, exc_token, us
from detsim.runner import Discard
from detsim.sched import HarnessError, Scheduler, SimDeadlock, deadlock_result

PROP = "C11"
LEVEL = "exploration"
RUNS = {"quick": 10000, "thorough": 150000}
BUDGET_S = {"quick": 150, "thorough": 1500}
RULE = ("each evaluation is one hinted query of a session (a) or one parse of a record-order-"
        "faulted file with all its stored timestamps re-queried (b, c). Distinct = distinct "
        "(tempo ticks, tick, resolved hint) resp. distinct faulted text digest; non-trivial = the "
        "hint is > 0 (a) resp. the fault changed the stored text (b)")
ASSUMPTIONS = [
    "the governing-index model is recomputed by the harness from the parsed tempo ticks",
    "timestamps are compared with the un-hinted query of the same object (consistency), not with "
    "exact arithmetic (that is C01, not claimed)",
    "hints below 0 are outside the statement (0..len) and are not generated",
]


def make_plan(seed: int, tier: str, index: int) -> dict[str, Any]:
    g = rng.stream(seed, "gen")
    p = rng.stream(seed, "plan")
    f = rng.stream(seed, "fault")
    s = rng.stream(seed, "sched")
    doc = gen.gen_doc(g, max_tracks=2, small=False if g.random() < 0.5 else True)
    doc["unknown"] = []
    want_tempos = g.choice([3, 3, 4, 5, 6, 8, 10])
    huge = index % 100 == 50
    recycle = index % 20 == 10 and not huge
    if recycle:
        want_tempos = g.choice([33, 34, 40, 48, 64])
    if huge:
        # a chart tempo-mapped beat by beat: the lookup must not depend on how far the hint is
        # from the governing event (deep recursion, quadratic scans, integer width ...)
        want_tempos = g.choice([1100, 1600, 2600])
    while len(doc["tempos"]) < want_tempos and (huge or recycle or g.random() < 0.9):
        last = doc["tempos"][-1][0]
        doc["tempos"].append([last + g.choice([1, 2, doc["resolution"], 3 * doc["resolution"] + 1]),
                              g.choice(gen.BPM_POOL)])
    if index % 2 == 0:
        ticks = [t for t, _ in doc["tempos"]]
        pool = sorted({0, -1, 1, ticks[-1] + 100000} | set(ticks) | {t - 1 for t in ticks}
                      | {t + 1 for t in ticks})
        if huge:
            pool = sorted(set(p.sample(pool, 40)) | {0, ticks[-1], ticks[-1] + 100000, ticks[len(ticks) // 2]})
        n_clients = p.choice([1, 2, 2, 3]) if not huge else p.choice([1, 1, 2])
        clients = []
        for _ in range(n_clients):
            ops = []
            for _ in range(p.randint(4, 20) if not huge else p.randint(4, 8)):
                ops.append({"tick": p.choice(pool + [p.randint(-2, ticks[-1] + 50)]),
                            "hint": p.choice(["zero", "none", "prev", "prev", "prev", "any", "prev+1",
                                              "len-1", "len", "len+1", p.randrange(0, len(ticks) + 1)]),
                            "no_opt": p.random() < 0.1})
            clients.append(ops)
        schedule: dict[str, Any] = {"mode": "sequential", "seed": s.getrandbits(32), "p_boundary": 0.5}
        if n_clients > 1 and s.random() < 0.8:
            schedule = {"mode": "geometric", "seed": s.getrandbits(32), "gap": s.choice([2, 3, 5, 10, 40])}
        plan = {"property": PROP, "seed": seed, "part": "session", "text": gen.render(doc),
                "clients": clients, "schedule": schedule, "fresh_map": p.random() < 0.5}
        if n_clients > 1 and not huge and p.random() < 0.4:
            # a second chart with ANOTHER resolution and the same tempo values lives in the
            # process; the odd-numbered readers query its tempo map at the same time
            d3 = copy.deepcopy(doc)
            new_res = g.choice([r for r in gen.RESOLUTION_POOL if r != doc["resolution"]])
            d3["resolution"] = new_res
            d3["meta"] = [[a, (str(new_res) if a == "Resolution" else b)] for a, b in d3["meta"]]
            plan["other_text"] = gen.render(d3)
        if recycle:
            # history: ANOTHER chart with as many tempo events at other ticks is loaded, asked far
            # look-ups and dropped before this chart is loaded (swept over allocator shifts)
            d2 = copy.deepcopy(doc)
            t2 = 0
            for i in range(1, len(d2["tempos"])):
                t2 += g.choice([1, 3, d2["resolution"], 2 * d2["resolution"] + 1])
                d2["tempos"][i][0] = t2
            # (everything else stays as it is: the two charts allocate alike, only the tempo
            # ticks differ)
            plan["recycle_text"] = gen.render(d2)
            plan["fresh_map"] = False
        return plan
    # (b) record-order faults on one or more section bodies
    big = index % 240 == 17 and bool(doc["tracks"])
    if big:
        # one track of a few thousand notes at distinct ticks (batching / prefetching by size)
        gen.add_many_notes(g, doc, 2100 + (index // 240) % 5 * 300)
    secs = gen.sections(doc)
    variants = [{"fault": "none", "text": gen.render_sections(secs)}]
    for _ in range(1 if big else f.randint(3, 6)):
        s2 = copy.deepcopy(secs)
        faults = []
        for _k in range(f.choice([1, 1, 2, 3])):
            cand = [i for i in range(1, len(s2)) if len(s2[i][1]) >= 1]
            if not cand:
                break
            si = f.choice(cand)
            body = s2[si][1]
            kind = f.choice(["reorder", "line_swap", "line_dup", "line_drop", "line_move",
                             "reverse", "sort_desc"])
            n = len(body)
            if kind == "reorder":
                f.shuffle(body)
            elif kind == "line_swap" and n >= 2:
                i, j = f.sample(range(n), 2)
                body[i], body[j] = body[j], body[i]
            elif kind == "line_dup":
                i = f.randrange(n)
                body.insert(f.randint(0, n), body[i])
            elif kind == "line_drop":
                del body[f.randrange(n)]
            elif kind == "line_move" and n >= 2:
                ln = body.pop(f.randrange(n))
                body.insert(f.randint(0, n - 1), ln)
            elif kind == "reverse":
                body.reverse()
            elif kind == "sort_desc":
                body.sort(key=lambda ln: -int(ln.split(" = ")[0]) if ln.split(" = ")[0].isdigit() else 0)
            faults.append(f"{kind}:{gen_family(s2[si][0])}")
        variants.append({"fault": "+".join(faults) or "none", "text": gen.render_sections(s2)})
    return {"property": PROP, "seed": seed, "part": "reorder", "variants": variants,
            "base": variants[0]["text"], "lower_seed": f.getrandbits(16)}


def gen_family(name: str) -> str:
    return {"SyncTrack": "sync", "Events": "events", "Song": "song"}.get(name, "instrument")


def governing(ticks: list[int], t: int) -> int:
    g = -1
    for i, tt in enumerate(ticks):
        if tt <= t:
            g = i
    return g


# ----------------------------------------------------------------------------------------------

def execute(plan: dict[str, Any]) -> dict[str, Any]:
    if plan["part"] == "session":
        return _execute_session(plan)
    if env.package_makes_threads():
        # the library runs threads of its own: the whole sequence of loads is ONE simulated caller
        from detsim.sched import as_one_caller

        return as_one_caller(PROP, lambda: _execute_reorder(plan), int(plan["seed"]), env.PKG_DIR,
                             preempt_lines=not env.package_uses_locks_or_threads())
    return _execute_reorder(plan)


def _execute_session(plan: dict[str, Any]) -> dict[str, Any]:
    from detsim import world

    world.install_log_sink()
    try:
        chart = world.parse_text(plan["text"])
    except Exception as e:  # noqa: BLE001
        raise Discard("chart-rejected:" + type(e).__name__) from e
    violations: list[dict[str, Any]] = []
    if plan.get("recycle_text"):
        for j in (0, 1, 2, 3, 4, 5, 6, 7, 8, 9, 11, 13, 16, 20):
            held = []
            for _gen in range(1 + j % 3):  # one to three generations alive at once, then all dropped
                try:
                    a = world.parse_text(plan["recycle_text"])
                except Exception as e:  # noqa: BLE001
                    raise Discard("recycle-chart-rejected:" + type(e).__name__) from e
                abe = a.sync_track.bpm_events
                far = abe[len(abe) - 1].tick
                for t in (far, far + 5, far // 2, 1):
                    abe.timestamp_at_tick(t)
                    abe.timestamp_at_tick_no_optimize_return(t)
                held.append(a)
                del abe, a
            del held
            shift = world.heap_shift(j)
            try:
                chart = world.parse_text(plan["text"])
            except Exception as e:  # noqa: BLE001 - it parsed a moment ago, at the top of this run
                violations.append({
                    "sig": f"C11/session/parse-raises/after-another-chart-was-dropped/{type(e).__name__}",
                    "detail": f"another chart was loaded, queried and dropped; then this chart, which "
                              f"parsed a moment ago, raised {exc_token(e)} (allocator shift {j})"})
                break
            cbe = chart.sync_track.bpm_events
            cticks = [e.tick for e in cbe]
            for t in sorted({cticks[-1], cticks[-1] + 9, cticks[len(cticks) // 2], cticks[len(cticks) // 3] + 1, 1}):
                try:
                    ts_, idx_ = cbe.timestamp_at_tick(t)
                    got_: Any = idx_
                except BaseException as e:  # noqa: BLE001
                    got_ = "raised " + type(e).__name__
                if got_ != governing(cticks, t) and not violations:
                    violations.append({
                        "sig": "C11/session/wrong-index/after-another-chart-was-dropped",
                        "detail": f"another chart with {len(cticks)} tempo events was loaded, queried and "
                                  f"dropped; then this chart: un-hinted query for tick {t} gave index "
                                  f"{got_}, governing index {governing(cticks, t)} (allocator shift {j})"})
            del shift
            if violations:
                break
    be = chart.sync_track.bpm_events
    if plan.get("fresh_map"):
        # a tempo map nobody has queried yet (parsing already queried the chart's own map for
        # the time signatures): same events and resolution through the public constructor
        import dataclasses

        try:
            be = dataclasses.replace(be)
        except TypeError:
            pass
    ticks = [e.tick for e in be]
    n = len(ticks)
    other_be = None
    other_chart = None
    if plan.get("other_text"):
        try:
            other_chart = world.parse_text(plan["other_text"])
            other_be = other_chart.sync_track.bpm_events
        except Exception:  # noqa: BLE001
            other_be = None
    be_main = be
    nontrivial = []
    counters = {"hint_gt0": 0, "expected_valueerror": 0, "returned": 0}
    n_clients = len(plan["clients"])
    sched = Scheduler(plan["schedule"], n_clients, env.PKG_DIR,
                      preempt_lines=not env.package_uses_locks_or_threads())
    n_ops = 0

    def body_for(ci: int) -> Any:
        ops = plan["clients"][ci]

        def body(client: Any) -> None:
            nonlocal n_ops
            returned: list[int] = []
            be = other_be if (other_be is not None and ci % 2 == 1) else be_main
            stored = {e.tick: us(e.timestamp) for e in be}
            for k, op in enumerate(ops):
                hs = op["hint"]
                if hs == "zero":
                    h: int | None = 0
                elif hs == "none":
                    h = None
                elif hs == "prev":
                    h = returned[-1] if returned else 0
                elif hs == "any":
                    h = returned[(k * 7 + ci) % len(returned)] if returned else 0
                elif hs == "prev+1":
                    h = (returned[-1] if returned else 0) + 1
                elif hs == "len-1":
                    h = n - 1
                elif hs == "len":
                    h = n
                elif hs == "len+1":
                    h = n + 1
                else:
                    h = int(hs)
                t = op["tick"]
                sched.begin_op(client, k)
                try:
                    if op.get("no_opt") and h in (None, 0):
                        got: Any = ["ok", us(be.timestamp_at_tick_no_optimize_return(t)), None]
                    elif h is None:
                        ts, idx = be.timestamp_at_tick(t)
                        got = ["ok", us(ts), idx]
                    else:
                        ts, idx = be.timestamp_at_tick(t, start_iteration_index=h)
                        got = ["ok", us(ts), idx]
                except HarnessError:
                    raise
                except BaseException as e:  # noqa: BLE001
                    got = ["exc", type(e).__name__, exc_token(e)[1]]
                sched.end_op(client)
                n_ops += 1
                with sched.atomic(client):
                    hh = h or 0
                    g = governing(ticks, t)
                    if hh > 0:
                        counters["hint_gt0"] += 1
                        nontrivial.append(rng.digest([ticks, t, hh]))
                    must_raise = t < 0 or hh > n - 1 or hh > g
                    sched.record("op", ci, k, t, hh, got[:2])
                    if must_raise:
                        counters["expected_valueerror"] += 1
                        if got[0] == "ok":
                            sym = "accepted-bad-hint" if t >= 0 else "negative-tick-returned"
                            violations.append({"sig": f"C11/session/{sym}/query",
                                               "detail": f"client {ci} op {k}: tick {t} hint {hh} over tempo "
                                                         f"ticks {ticks} (governing index {g}) returned "
                                                         f"{got[1:]}, expected ValueError"})
                        elif got[1] != "ValueError":
                            violations.append({"sig": f"C11/session/wrong-exception/{got[1]}",
                                               "detail": f"client {ci} op {k}: tick {t} hint {hh}: raised "
                                                         f"{got[1:]} instead of ValueError"})
                        continue
                    try:
                        ts0, idx0 = be.timestamp_at_tick(t)
                        want: Any = ["ok", us(ts0), idx0]
                    except BaseException as e:  # noqa: BLE001
                        want = ["exc", type(e).__name__, exc_token(e)[1]]
                    if got[0] == "ok":
                        counters["returned"] += 1
                        if got[2] is not None:
                            returned.append(got[2])
                    if got[0] == "exc":
                        if want[0] == "exc" and want[1] == got[1]:
                            continue
                        violations.append({"sig": f"C11/session/rejected-good-hint/{got[1]}",
                                           "detail": f"client {ci} op {k}: tick {t} hint {hh} <= governing "
                                                     f"index {g} over {ticks} raised {got[1:]}; un-hinted "
                                                     f"query gives {want}"})
                        continue
                    if want[0] == "exc":
                        violations.append({"sig": "C11/session/wrong-timestamp/unhinted-raises",
                                           "detail": f"client {ci} op {k}: tick {t} hint {hh} returned {got[1:]} "
                                                     f"but the un-hinted query raises {want[1:]}"})
                        continue
                    if t in stored and want[1] != stored[t]:
                        # "every timestamp stored on a parsed event equals the un-hinted query for
                        # its tick" - also later in the life of the process, on any thread
                        violations.append({"sig": "C11/session/stored-differs-from-unhinted/tempo",
                                           "detail": f"client {ci} op {k}: the tempo event at tick {t} "
                                                     f"stores {stored[t]} us, the un-hinted "
                                                     f"query for its tick now gives {want[1]} us"})
                    elif got[1] != want[1]:
                        violations.append({"sig": "C11/session/wrong-timestamp/query",
                                           "detail": f"client {ci} op {k}: tick {t} hint {hh} over {ticks}: "
                                                     f"timestamp {got[1]} us, un-hinted {want[1]} us"})
                    elif got[2] is not None and (got[2] != g or want[2] != g):
                        violations.append({"sig": "C11/session/wrong-index/query",
                                           "detail": f"client {ci} op {k}: tick {t} hint {hh} over {ticks}: "
                                                     f"index {got[2]} (un-hinted {want[2]}), governing index {g}"})
            # at the end of the session, on THIS thread: every timestamp stored on a parsed event
            # of the chart still equals the un-hinted query for its tick
            with sched.atomic(client):
                ch = other_chart if (other_chart is not None and other_be is not None and ci % 2 == 1) else chart
                try:
                    bad = _stored_mismatch(ch, requeried)
                except BaseException:  # noqa: BLE001
                    bad = None
                if bad and not violations:
                    violations.append({"sig": f"C11/session/stored-differs-from-unhinted/{bad[0]}",
                                       "detail": f"client {ci}, after its session, on its own thread: {bad[1]}"})
        return body

    requeried = {"timestamps_requeried": 0}
    harness_error = None
    try:
        sched.run([body_for(i) for i in range(n_clients)])
    except SimDeadlock as e:
        # threads / locks the library made itself, all of them scheduled by the simulator:
        # under this schedule a call never returns (its reference does)
        return deadlock_result(PROP, e, sched)
    except HarnessError as e:
        harness_error = str(e)
    world.drain_log()
    sched.record("violations", [v["sig"] for v in violations])
    return {
        "violations": violations[:4], "digest": sched.events.hexdigest()[:32], "evals": n_ops,
        "nontrivial": nontrivial, "counters": counters, "sim_steps": sched.global_step,
        "ops": n_ops, "switches": sched.switches, "mid_op_switches": sched.mid_op_switches,
        "interleaving": sched.interleaving.hexdigest()[:32] if n_clients > 1 else None,
        "sched_mode": sched.mode,
        "sub_batch": ("session/fresh-map" if plan.get("fresh_map") else "session/parsed-map")
        + ("/after-dropped-chart" if plan.get("recycle_text") else ""),
        "sample": {"part": "session", "tempo_ticks": ticks, "clients": [c[:5] for c in plan["clients"]],
                   "schedule": plan["schedule"]},
        "harness_error": harness_error, "explicit_schedule": sched.explicit_schedule(),
    }


def _execute_reorder(plan: dict[str, Any]) -> dict[str, Any]:
    import hashlib

    from detsim import world

    world.install_log_sink()
    ev = hashlib.sha256()
    violations: list[dict[str, Any]] = []
    nontrivial = []
    fired: dict[str, int] = {}
    counters = {"raised_valueerror": 0, "returned_chart": 0, "timestamps_requeried": 0}
    mon = monitors.HintMonitor(lower_seed=plan.get("lower_seed", 0))
    for vi, v in enumerate(plan["variants"]):
        for fk in v["fault"].split("+"):
            fired[fk] = fired.get(fk, 0) + 1
        if v["text"] != plan["base"]:
            nontrivial.append(rng.digest(v["text"]))
        mon.install()
        try:
            chart = None
            err: BaseException | None = None
            try:
                chart = world.parse_text(v["text"])
            except BaseException as e:  # noqa: BLE001
                err = e
        finally:
            mon.uninstall()
        if err is not None:
            ev.update(f"{vi}:exc:{type(err).__name__};".encode())
            if isinstance(err, ValueError):
                counters["raised_valueerror"] += 1
            else:
                violations.append({"sig": f"C11/reorder/other-exception/{type(err).__name__}",
                                   "detail": f"variant {vi} ({v['fault']}): raised {exc_token(err)}; only "
                                             "ValueError or a chart with consistent timestamps is allowed"})
            continue
        counters["returned_chart"] += 1
        bad = _stored_mismatch(chart, counters)
        if bad is None and vi % 2 == 0:
            # a COPY of the chart (pickle round trip / deepcopy / shallow copy) is a chart too:
            # its stored timestamps must equal the un-hinted queries on ITS tempo map
            import copy
            import pickle

            how = ("pickle", "deepcopy", "copy")[(vi // 2) % 3]
            try:
                clone = (pickle.loads(pickle.dumps(chart)) if how == "pickle"
                         else copy.deepcopy(chart) if how == "deepcopy" else copy.copy(chart))
            except Exception:  # noqa: BLE001 - whether a chart can be copied is not C11's to judge
                clone = None
            if clone is not None:
                counters["copies_requeried"] = counters.get("copies_requeried", 0) + 1
                try:
                    bad = _stored_mismatch(clone, counters)
                except Exception:  # noqa: BLE001
                    bad = None
                if bad:
                    bad = (bad[0] + "/after-" + how, f"in a {how} copy of the chart: " + bad[1])
        ev.update(f"{vi}:ok:{bad[0] if bad else '-'};".encode())
        if bad:
            violations.append({"sig": f"C11/reorder/stored-differs-from-unhinted/{bad[0]}",
                               "detail": f"variant {vi} ({v['fault']}): {bad[1]}"})
    for pr in mon.problems[:2]:
        violations.append({"sig": f"C11/callsite/wrong-with-lower-hint/{pr['caller']}",
                           "detail": pr["detail"]})
    world.drain_log()
    return {
        "violations": violations[:4], "digest": ev.hexdigest()[:32], "evals": len(plan["variants"]),
        "nontrivial": nontrivial, "faults_fired": fired, "counters": counters,
        "probes": dict(mon.probes), "ops": len(plan["variants"]), "sub_batch": "reorder+callsite",
        "sample": {"part": "reorder", "faults": [v["fault"] for v in plan["variants"]]},
    }


def _stored_mismatch(chart: Any, counters: dict[str, int]) -> tuple[str, str] | None:
    be = chart.sync_track.bpm_events
    for kind, e in all_events(chart):
        if kind == "anchor":
            continue
        counters["timestamps_requeried"] += 1
        try:
            want = be.timestamp_at_tick_no_optimize_return(e.tick)
        except ValueError:
            want = None
        if want is None or want != e.timestamp:
            return (kind, f"{kind} event at tick {e.tick} stores {us(e.timestamp)} us, un-hinted query "
                          f"gives {us(want) if want is not None else 'ValueError'}")
        if kind == "note":
            counters["timestamps_requeried"] += 1
            try:
                want_end = be.timestamp_at_tick_no_optimize_return(e.end_tick)
            except ValueError:
                want_end = None
            if want_end is None or want_end != e.end_timestamp:
                return ("note-end", f"note at tick {e.tick} (end tick {e.end_tick}) stores end "
                                    f"{us(e.end_timestamp)} us, un-hinted query gives "
                                    f"{us(want_end) if want_end is not None else 'ValueError'}")
    return None


def shrink(plan: dict[str, Any]):
    if plan["part"] == "reorder":
        vs = plan["variants"]
        if len(vs) > 1:
            for v in vs:
                yield {**plan, "variants": [v]}
        return
    clients = plan["clients"]
    if len(clients) > 1:
        for i in range(len(clients)):
            yield {**plan, "clients": clients[:i] + clients[i + 1:]}
    for ci, ops in enumerate(clients):
        n = len(ops)
        if n > 1:
            for i in range(n):
                yield {**plan, "clients": clients[:ci] + [ops[:i] + ops[i + 1:]] + clients[ci + 1:]}
    yield from minimize.shrink_schedule(plan)
