"""C18 — only documented errors escape; parsed charts always render.

Fault *sequences* on the stored text of a well-formed chart (line delete/dup/swap/move, char
edits, truncation) and texts assembled from fragments; oracle = closed exception-type set and
render totality.  Each run evaluates a batch of texts in one process (so memo tables are warm for
most of them, cold for the first: both paths run).
"""

from __future__ import annotations

from typing import Any

from detsim import corrupt, env, gen, minimize, rng
from detsim.sched import HarnessError, Scheduler, SimDeadlock, deadlock_result

PROP = "C18"
LEVEL = "exploration"
RUNS = {"quick": 1600, "thorough": 30000}
BUDGET_S = {"quick": 150, "thorough": 1500}
CASES_PER_RUN = 120
CASES_PER_LONG_RUN = 420
FLOOD_LINES = ["  0 = N 8 0", "  96 = N 0 0", "  5 = S 64 1", "  junk", "  ", "", "  7 = E two words",
               "  0 = B 120000", '  3 = E "section x"', "  9 = TS 4", "  1 = A 5", "  12 = N 5 0"]
RULE = ("each evaluation is one text: a generated well-formed chart damaged by a seeded sequence "
        "of 1-8 storage faults (line drop/dup/swap/move/insert, char insert/delete/replace, "
        "truncation) or a text assembled from a fragment catalogue, kept inside the property's "
        "bounds (digit runs <= 8, TS exponent < 64). Distinct = distinct text digest; non-trivial "
        "= the text differs from its well-formed base (at least one fault fired) or is an "
        "assembled text with >= 3 lines. Every eighth run is a 420-text history in one process; "
        "every eighth run is a concurrent-renderer run (each evaluation there is one str()/repr() "
        "of a cold chart or one of its parts while other readers use the chart; non-trivial = at "
        "least one context switch in the middle of an operation)")
ASSUMPTIONS = [
    "texts are sampled, not enumerated; a clean batch is evidence, not proof",
    "the closed set of documented errors is ValueError (incl. subclasses), RegexNotMatchError, "
    "MissingRequiredField, as the property states",
    "inputs outside the stated numeric bounds are discarded and counted, never judged",
]


def _concurrent_plan(seed: int) -> dict[str, Any]:
    """Renderers racing with other read-only users of one freshly parsed (cold) chart."""
    from checks import c19

    g = rng.stream(seed, "gen")
    p = rng.stream(seed, "plan")
    s = rng.stream(seed, "sched")
    doc = gen.gen_doc(g, max_tracks=3, small=g.random() < 0.5)
    doc["unknown"] = []
    present = [t[0] for t in doc["tracks"]]
    ticks = sorted({t for t, _ in doc["tempos"]} | {gr["tick"] for tr in doc["tracks"] for gr in tr[1]} | {0})
    n_clients = p.choice([2, 2, 3])
    clients = []
    for ci in range(n_clients):
        kinds = ["render"] if ci == 0 else p.choice([["nps", "prop", "getitem2"], ["prop", "render"],
                                                     ["nps", "hash", "compare"], ["render", "nps"]])
        clients.append([c19._gen_op(p, doc, present, ticks, kinds) for _ in range(p.randint(2, 6))])
    schedule: dict[str, Any] = {"mode": "geometric", "seed": s.getrandbits(32),
                                "gap": s.choice([2, 3, 5, 10, 30])}
    if s.random() < 0.25:
        schedule = {"mode": "writes", "seed": s.getrandbits(32), "p": s.choice([0.1, 0.3, 0.6]),
                    "hold": s.choice([20, 200, 1000])}
    elif s.random() < 0.3:
        schedule["granularity"] = "opcode"
    return {"property": PROP, "seed": seed, "mode": "concurrent-render", "text": gen.render(doc),
            "present": present, "clients": clients, "schedule": schedule, "cases": [], "discarded": 0}


def _churn_plan(seed: int) -> dict[str, Any]:
    """Several threads parse (and drop) charts at the same time under the write / shared-state
    biased schedule: no interleaving may turn a text into an undocumented error."""
    g = rng.stream(seed, "gen")
    f = rng.stream(seed, "fault")
    p = rng.stream(seed, "plan")
    s = rng.stream(seed, "sched")
    texts = []
    for _ in range(g.randint(2, 4)):
        d = gen.gen_doc(g, max_tracks=2, small=True)
        d["unknown"] = []
        for tr in d["tracks"]:
            if tr[1] and g.random() < 0.7:  # a star-power phrase that covers the track's notes
                tr[2] = [[0, max(gr["tick"] for gr in tr[1]) + 10]]
        lines = gen.render(d).split("\n")
        if f.random() < 0.5:
            for _k in range(f.randint(1, 3)):
                body = [i for i, ln in enumerate(lines) if ln.startswith("  ")]
                op = corrupt.gen_op(f, lines)
                if not body or op["kind"] in ("truncate", "line_insert"):
                    continue
                for key in ("i", "j"):
                    if key in op:
                        op[key] = body[op[key] % len(body)]
                new = corrupt.apply_op(lines, op)
                if corrupt.within_bounds(new):
                    lines = new
        texts.append("\n".join(lines))
    n_clients = p.choice([2, 2, 2, 3])
    clients = [[p.randrange(len(texts)) for _ in range(p.randint(6, 12))] for _ in range(n_clients)]
    schedule = {"mode": "writes", "seed": s.getrandbits(32), "p": s.choice([0.3, 0.6, 0.9]),
                "hold": s.choice([1000, 4000, 8000])}
    if s.random() < 0.3:
        schedule = {"mode": "geometric", "seed": s.getrandbits(32), "gap": s.choice([3, 10, 100])}
    return {"property": PROP, "seed": seed, "mode": "concurrent-parse", "texts": texts,
            "clients": clients, "schedule": schedule, "cases": [], "discarded": 0}


def _execute_churn(plan: dict[str, Any]) -> dict[str, Any]:
    from detsim import world

    world.install_log_sink()
    n_clients = len(plan["clients"])
    sched = Scheduler(plan["schedule"], n_clients, env.PKG_DIR,
                      preempt_lines=not env.package_uses_locks_or_threads())
    violations: list[dict[str, Any]] = []
    n_ops = 0

    def body_for(ci: int) -> Any:
        def body(client: Any) -> None:
            nonlocal n_ops
            chart = None
            for k, ti in enumerate(plan["clients"][ci]):
                sched.begin_op(client, k)
                chart = None  # the previous result is dropped while other threads are mid-parse
                err: BaseException | None = None
                try:
                    chart = world.parse_text(plan["texts"][ti], None, newline=None)
                except HarnessError:
                    raise
                except BaseException as e:  # noqa: BLE001
                    err = e
                sched.end_op(client)
                n_ops += 1
                with sched.atomic(client):
                    sched.record("op", ci, k, ti, type(err).__name__ if err else "ok")
                    if err is not None and not world.is_documented_error(err) and not violations:
                        violations.append({
                            "sig": f"C18/escaped/{type(err).__name__}/concurrent",
                            "detail": f"client {ci} op {k}: {type(err).__name__}: {str(err)[:200]!r} escaped "
                                      f"from_file while other threads were parsing; text={plan['texts'][ti][:200]!r}"})
        return body

    harness_error = None
    try:
        sched.run([body_for(i) for i in range(n_clients)])
    except SimDeadlock as e:
        # threads / locks the library made itself, all of them scheduled by the simulator:
        # under this schedule a call never returns (its reference does)
        return deadlock_result(PROP, e, sched)
    except HarnessError as e:
        harness_error = str(e)
    world.drain_log()
    sched.record("violations", [v["sig"] for v in violations])
    return {
        "violations": violations, "digest": sched.events.hexdigest()[:32], "evals": n_ops,
        "nontrivial": [rng.digest(plan)] if sched.mid_op_switches else [],
        "counters": {"concurrent_parse_ops": n_ops}, "sim_steps": sched.global_step, "ops": n_ops,
        "switches": sched.switches, "mid_op_switches": sched.mid_op_switches,
        "interleaving": sched.interleaving.hexdigest()[:32], "sched_mode": sched.mode,
        "sub_batch": "concurrent-parse", "harness_error": harness_error,
        "explicit_schedule": sched.explicit_schedule(),
    }


def make_plan(seed: int, tier: str, index: int) -> dict[str, Any]:
    if index % 8 == 3:
        return _concurrent_plan(seed)
    if index % 8 == 6:
        return _churn_plan(seed)
    g = rng.stream(seed, "gen")
    f = rng.stream(seed, "fault")
    cases = []
    discarded = 0
    base_doc = None
    long_run = index % 8 == 7
    for k in range(CASES_PER_LONG_RUN if long_run else CASES_PER_RUN):
        if k % 6 == 0 or base_doc is None:
            base_doc = gen.gen_doc(g, small=g.random() < (0.2 if long_run else 0.6))
            if g.random() < 0.08:
                gen.add_far_events(g, base_doc)
            if index % 16 == 5 and k == 0:
                gen.add_many_notes(g, base_doc, g.choice([520, 700, 1100]))
            if index % 16 == 13 and k % 12 == 0:
                # a tempo map of 34-90 events (count thresholds in the look-up)
                while len(base_doc["tempos"]) < 34 + (k * 7 + index) % 57:
                    lt = base_doc["tempos"][-1][0]
                    base_doc["tempos"].append([lt + g.choice([1, 2, base_doc["resolution"]]), g.choice(gen.BPM_POOL)])
        if f.random() < (0.05 if long_run else 0.3):
            lines = corrupt.assemble(f)
            ops: list[dict[str, Any]] = []
            for _ in range(f.choice([0, 0, 1, 2])):
                op = corrupt.gen_op(f, lines)
                new = corrupt.apply_op(lines, op)
                if corrupt.within_bounds(new):
                    lines = new
                    ops.append(op)
                else:
                    discarded += 1
            cases.append({"kind": "assembled", "text": "\n".join(lines), "fired": len(lines) >= 3,
                          "ops": [o["kind"] for o in ops]})
            continue
        nl = f.choice(["\n", "\n", "\r\n"])
        base = gen.render(base_doc, newline="\n").split("\n")
        lines = list(base)
        ops = []
        keep_structure = long_run or f.random() < 0.5
        n_faults = f.randint(1, 8)
        flood_at = f.randrange(n_faults) if f.random() < 0.12 else -1
        for fi in range(n_faults):
            op = corrupt.gen_op(f, lines)
            if fi == flood_at:
                op = {"kind": "line_flood", "i": f.randrange(len(lines) + 1),
                      "count": f.choice([90, 101, 128, 257, 300, 513]),
                      "line": f.choice(FLOOD_LINES)}
            if keep_structure:
                # aim the fault at body lines only, so that framing survives and the damage
                # reaches the section parsers and the renderers
                body = [i for i, ln in enumerate(lines) if ln.startswith("  ")]
                if not body:
                    continue
                for key in ("i", "j"):
                    if key in op:
                        op[key] = body[op[key] % len(body)]
                if op["kind"] == "truncate":
                    op["kind"] = "char_delete"
                    op["ch"] = ""
                if op["kind"] == "line_flood":
                    op["i"] = body[op["i"] % len(body)]
                if op["kind"] == "line_insert":
                    op["line"] = "  " + op["line"].strip() if op["line"].strip() not in (
                        "{", "}") and not op["line"].strip().startswith("[") else "  0 = N 4 0"
                    op["i"] = body[op["i"] % len(body)]
            new = corrupt.apply_op(lines, op)
            if not corrupt.within_bounds(new):
                discarded += 1
                continue
            lines = new
            ops.append(op)
        case = {"kind": "damaged", "text": nl.join(lines), "fired": lines != base,
                "ops": [o["kind"] for o in ops],
                **({"reenter": True} if f.random() < 0.06 else {})}
        if f.random() < 0.06:
            # the stored BYTES are damaged (a flipped byte, a file torn inside a multi-byte
            # character) and read through a decoding reader: the decoder's UnicodeDecodeError is a
            # ValueError, hence documented
            data = case["text"].encode("utf-8")
            if data:
                pos = f.randrange(len(data))
                how = f.choice(["flip", "flip", "tear", "latin1"])
                if how == "flip":
                    data = data[:pos] + bytes([f.choice([0xFF, 0xC0, 0x80, 0xFE])]) + data[pos + 1:]
                elif how == "tear":
                    data = data[:pos] + "歌".encode("utf-8")[:2]
                else:
                    data = data[:pos] + "née".encode("latin-1") + data[pos:]
                case["bytes_hex"] = data.hex()
                case["ops"] = case["ops"] + ["byte_" + how]
                case["fired"] = True
        cases.append(case)
    nested_doc = gen.gen_doc(g, max_tracks=1, small=True)
    nested_doc["unknown"] = []
    return {"property": PROP, "seed": seed, "mode": "long-history" if long_run else "batch",
            "cases": cases, "discarded": discarded, "nested_text": gen.render(nested_doc)}


def _render_all(chart: Any) -> None:
    from detsim.observe import all_events

    str(chart)
    repr(chart)
    for obj in (chart.metadata, chart.sync_track, chart.global_events_track,
                chart.sync_track.bpm_events):
        str(obj)
        repr(obj)
    for _i, dd in chart.instrument_tracks.items():
        for _d, tr in dd.items():
            str(tr)
            repr(tr)
    for _k, e in all_events(chart):
        str(e)
        repr(e)


def _execute_concurrent(plan: dict[str, Any]) -> dict[str, Any]:
    from checks import c19
    from detsim import world
    from detsim.runner import Discard

    world.install_log_sink()
    try:
        chart = world.parse_text(plan["text"])
        twin = world.parse_text(plan["text"])
    except Exception as e:  # noqa: BLE001
        raise Discard("chart-rejected:" + type(e).__name__) from e
    n_clients = len(plan["clients"])
    sched = Scheduler(plan["schedule"], n_clients, env.PKG_DIR,
                      preempt_lines=not env.package_uses_locks_or_threads())
    violations: list[dict[str, Any]] = []
    n_render = 0

    def body_for(ci: int) -> Any:
        def body(client: Any) -> None:
            nonlocal n_render
            for k, op in enumerate(plan["clients"][ci]):
                sched.begin_op(client, k)
                err: BaseException | None = None
                try:
                    c19.do_op(chart, twin, op)
                except HarnessError:
                    raise
                except BaseException as e:  # noqa: BLE001
                    err = e
                sched.end_op(client)
                with sched.atomic(client):
                    sched.record("op", ci, k, op["op"], type(err).__name__ if err else "ok")
                    if op["op"] == "render":
                        n_render += 1
                        if err is not None and not violations:
                            violations.append({
                                "sig": f"C18/render/{type(err).__name__}/concurrent",
                                "detail": f"client {ci} op {k}: {op} raised {type(err).__name__}: "
                                          f"{str(err)[:200]!r} while other readers used the chart"})
        return body

    harness_error = None
    try:
        sched.run([body_for(i) for i in range(n_clients)])
    except SimDeadlock as e:
        # threads / locks the library made itself, all of them scheduled by the simulator:
        # under this schedule a call never returns (its reference does)
        return deadlock_result(PROP, e, sched)
    except HarnessError as e:
        harness_error = str(e)
    world.drain_log()
    sched.record("violations", [v["sig"] for v in violations])
    return {
        "violations": violations,
        "digest": sched.events.hexdigest()[:32],
        "evals": n_render,
        "nontrivial": [rng.digest(plan)] if sched.mid_op_switches else [],
        "counters": {"concurrent_render_ops": n_render},
        "sim_steps": sched.global_step,
        "ops": sum(len(c) for c in plan["clients"]),
        "switches": sched.switches,
        "mid_op_switches": sched.mid_op_switches,
        "interleaving": sched.interleaving.hexdigest()[:32],
        "sched_mode": sched.mode,
        "sub_batch": "concurrent-render",
        "harness_error": harness_error,
        "explicit_schedule": sched.explicit_schedule(),
    }


def execute(plan: dict[str, Any]) -> dict[str, Any]:
    from detsim import world

    if plan.get("mode") == "concurrent-render":
        return _execute_concurrent(plan)
    if plan.get("mode") == "concurrent-parse":
        return _execute_churn(plan)
    if env.package_makes_threads():
        # the library runs threads of its own: the whole history of parses is ONE simulated caller
        from detsim.sched import as_one_caller

        return as_one_caller(PROP, lambda: _execute_sequential(plan), int(plan["seed"]), env.PKG_DIR,
                             preempt_lines=not env.package_uses_locks_or_threads())
    return _execute_sequential(plan)


def _execute_sequential(plan: dict[str, Any]) -> dict[str, Any]:
    from detsim import world

    world.install_log_sink()
    import hashlib

    ev = hashlib.sha256()
    violations = []
    nontrivial = []
    counters = {"returned_chart": 0, "raised_documented": 0}
    fired: dict[str, int] = {}
    exc_types: dict[str, int] = {}
    for k, case in enumerate(plan["cases"]):
        text = case["text"]
        for o in case.get("ops") or []:
            fired[o] = fired.get(o, 0) + 1
        if case.get("reenter"):
            fired["reentrant_log_handler_armed"] = fired.get("reentrant_log_handler_armed", 0) + 1
        if case["kind"] == "assembled":
            fired["fragment_assembly"] = fired.get("fragment_assembly", 0) + 1
        if case.get("fired"):
            nontrivial.append(rng.digest(text))
        reenter = None
        if case.get("reenter"):
            # the application's log handler parses another (small, well-formed) chart when it
            # receives the first record of this parse: a nested parse on the same thread
            def reenter(nested: str = plan.get("nested_text") or "") -> None:
                with world.shadow():
                    world.parse_text(nested)
        try:
            with world.reentrant_handler(reenter):
                if case.get("bytes_hex"):
                    import io

                    from chartparse.chart import Chart

                    chart = Chart.from_file(io.TextIOWrapper(io.BytesIO(bytes.fromhex(case["bytes_hex"])),
                                                             encoding="utf-8", newline=None))
                else:
                    chart = world.parse_text(text, None, newline=None)
        except BaseException as e:  # noqa: BLE001
            name = type(e).__name__
            if world.is_documented_error(e):
                counters["raised_documented"] += 1
                exc_types[name] = exc_types.get(name, 0) + 1
                ev.update(f"{k}:exc:{name};".encode())
                continue
            violations.append({"sig": f"C18/escaped/{name}",
                               "detail": f"case {k}: {name}: {str(e)[:200]!r} escaped from_file; "
                                         f"text={text[:300]!r}", "case": k})
            ev.update(f"{k}:leak:{name};".encode())
            continue
        counters["returned_chart"] += 1
        try:
            _render_all(chart)
            ev.update(f"{k}:ok;".encode())
        except BaseException as e:  # noqa: BLE001
            name = type(e).__name__
            violations.append({"sig": f"C18/render/{name}",
                               "detail": f"case {k}: rendering a returned chart raised {name}: "
                                         f"{str(e)[:200]!r}; text={text[:300]!r}", "case": k})
            ev.update(f"{k}:render:{name};".encode())
    world.drain_log()
    counters.update({f"exc_{k}": v for k, v in exc_types.items()})
    sample = None
    if plan["cases"]:
        c = plan["cases"][0]
        sample = {"kind": c["kind"], "ops": c.get("ops"), "text_head": c["text"][:240]}
    return {
        "violations": violations,
        "digest": ev.hexdigest()[:32],
        "evals": len(plan["cases"]),
        "nontrivial": nontrivial,
        "counters": counters,
        "faults_fired": fired,
        "discarded": {"out_of_bounds_step": int(plan.get("discarded", 0))},
        "sample": sample,
        "ops": len(plan["cases"]),
        "sub_batch": "storage-faults+assembly" + ("/long-history" if plan.get("mode") == "long-history" else ""),
    }


def shrink(plan: dict[str, Any]):
    if plan.get("mode") in ("concurrent-render", "concurrent-parse"):
        clients = plan["clients"]
        if len(clients) > 2:
            for i in range(len(clients)):
                yield {**plan, "clients": clients[:i] + clients[i + 1:]}
        for ci, ops in enumerate(clients):
            if len(ops) > 1:
                for i in range(len(ops)):
                    yield {**plan, "clients": clients[:ci] + [ops[:i] + ops[i + 1:]] + clients[ci + 1:]}
        yield from minimize.shrink_schedule(plan)
        return
    cases = plan["cases"]
    if len(cases) > 1:
        # single cases first (a history-free failure reduces to one text)
        for c in cases:
            yield {**plan, "cases": [c], "discarded": 0}
        half = len(cases) // 2
        yield {**plan, "cases": cases[:half], "discarded": 0}
        yield {**plan, "cases": cases[half:], "discarded": 0}
        return
    c = cases[0]
    sep = "\r\n" if "\r\n" in c["text"] else "\n"
    lines = c["text"].split(sep)
    n = len(lines)
    chunk = max(1, n // 2)
    while chunk >= 1:
        for i in range(0, n, chunk):
            cand = lines[:i] + lines[i + chunk:]
            if len(cand) < n:
                yield {**plan, "cases": [{**c, "text": sep.join(cand), "ops": []}]}
        if chunk == 1:
            break
        chunk //= 2
    for i, ln in enumerate(lines):
        if len(ln) > 1:
            for cut in (ln[: len(ln) // 2], ln[len(ln) // 2:], ln[1:], ln[:-1]):
                yield {**plan, "cases": [{**c, "text": sep.join(lines[:i] + [cut] + lines[i + 1:]),
                                         "ops": []}]}
