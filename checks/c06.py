"""C06 — sections are framed and routed to the right parser and track key; the parsed chart is
independent of section order, LF/CRLF, a BOM (by path) and unknown sections.

World: every generated chart is stored on the simulated disk in many variants (section
permutation x {LF, CRLF} x {BOM, none} x unknown sections at random places x header subsets that
cover all 40 names across a batch, all 40 in one chart periodically) and read back by path and
through several reader kinds while the raw device follows a result-preserving I/O fault tape
(short reads, chunk boundaries inside CRLF / BOM / multi-byte sequences, tiny buffers, EINTR).
EIO runs are a separate sub-batch.
"""

from __future__ import annotations

import errno
import os
from typing import Any

from detsim import env, gen, minimize, parseop, rng, runner, simfs
from detsim.observe import exc_token, observe_chart
from detsim.runner import Discard
from detsim.sched import HarnessError, Scheduler, SimDeadlock, deadlock_result

PROP = "C06"
LEVEL = "exploration"
RUNS = {"quick": 3000, "thorough": 60000}
BUDGET_S = {"quick": 150, "thorough": 1500}
RULE = ("each evaluation is one stored variant of a generated chart read back once (one order x "
        "newline x BOM x unknown-section placement x access path x I/O tape). Distinct = distinct "
        "(bytes, access path, tape) digest; non-trivial = the variant differs from the canonical "
        "one in at least one dimension (order, newline, BOM, unknown section, reader kind or a "
        "fired I/O fault)")
ASSUMPTIONS = [
    "the header table (40 '<Difficulty><Instrument>' names -> enum member names) is the "
    "harness' own copy of the file format, not chartparse's enums",
    "routing and permutation invariance are relations over generated inputs; the "
    "simulator-specific part is the newline/BOM/reader/chunking half (DESIGN.md §4 C06)",
    "lone-CR newlines, BOM through from_file with a non-sig decoder, duplicate headers and bare "
    "braces inside bodies are outside the statement and are not generated",
    "the canonical observation comes from a process forked from the pristine image; a quarter of "
    "the runs read their variants from two concurrent clients, cold; unknown-section reports are "
    "counted, never matched by text; a case variant of one of the 40 names is an unknown section",
    "a read hit by an injected EIO may fail in any way; a chart it returns is judged like any other",
]
# '@' is replaced by the unique per-variant stem; the names are ordinary on any file system
FILE_NAMES = ["Artist - Title {Charter}/@", "Disc {} of 2/@ {0}", "100% @ %s %d", "née 歌/@ notes",
              "a b  c/@ (1)", "@ [Expert] {x!r:>10}", "@.backup.v2", "%(name)s/@"]
UNKNOWN_NAMES = ["Foo", "PART VOCALS", "ExpertSingleX", "expertsingle", "Song2", "Events2",
                 "ExpertGuitar", "Sync Track"]
# body lines are rendered indented, so "}" / "{" / "[Song]" below are NOT the bare structural
# lines of the format but ordinary (unparsable) content of the unknown section
UNKNOWN_BODY = ["0 = N 0 0", "junk", "x = y", '100 = E "hello"', "", "0 = B 120000",
                "Resolution = 1", "   ", "0 = S 2 100", "née 歌", "}", "{", "[Song]", "[ExpertSingle]"]


# ----------------------------------------------------------------------------------------------
# planning
# ----------------------------------------------------------------------------------------------

def _gen_access(r: Any, bom: bool) -> dict[str, Any]:
    if bom:
        return r.choice([
            {"via": "path"}, {"via": "path", "str_path": True},
            {"via": "file", "reader": "textio", "encoding": "utf-8-sig", "newline": r.choice([None, "", "\n"])},
            {"via": "file", "reader": "codecs", "encoding": "utf-8-sig"},
            {"via": "file", "reader": "stringio", "encoding": "utf-8-sig", "newline": r.choice([None, "", "\n"])},
        ])
    return r.choice([
        {"via": "path"}, {"via": "path"}, {"via": "path", "str_path": True},
        {"via": "file", "reader": "stringio", "newline": "\n"},
        {"via": "file", "reader": "stringio", "newline": None},
        {"via": "file", "reader": "stringio", "newline": ""},
        {"via": "file", "reader": "textio", "encoding": "utf-8", "newline": None},
        {"via": "file", "reader": "textio", "encoding": "utf-8", "newline": ""},
        {"via": "file", "reader": "textio", "encoding": "utf-8", "newline": "\n"},
        {"via": "file", "reader": "textio", "encoding": "utf-8-sig", "newline": ""},
        {"via": "file", "reader": "codecs", "encoding": "utf-8"},
        {"via": "file", "reader": "simtext"},
    ])


def make_plan(seed: int, tier: str, index: int) -> dict[str, Any]:
    g = rng.stream(seed, "gen")
    p = rng.stream(seed, "plan")
    io_r = rng.stream(seed, "io")
    f = rng.stream(seed, "fault")
    sub = "eio" if index % 6 == 5 else "preserving"
    if index % 16 == 0:
        headers = list(gen.ALL_HEADERS)
        g.shuffle(headers)
        small = True
    else:
        # rotate through the 40 names so that a batch covers all of them
        k = g.randint(1, 5)
        start = (index * 3) % 40
        headers = [gen.ALL_HEADERS[(start + j * 7) % 40] for j in range(k)]
        headers = list(dict.fromkeys(headers))
        small = g.random() < 0.6
    doc = gen.gen_doc(g, headers=headers, small=small)
    doc["unknown"] = []
    if index % 16 == 8:
        # a file well above the default buffer sizes, dense with multi-byte characters, so that
        # any hand-rolled chunked reading/decoding meets a boundary inside a character
        t = 0
        for _ in range(g.randint(400, 900)):
            t += g.choice([0, 1, 7])
            doc["events"].append([doc["events"][-1][0] + t if doc["events"] else t,
                                  g.choice(["lyric", "section", "text"]),
                                  g.choice(["歌née", "née", "歌歌歌", "é", "x歌", "日本語 の 歌詞"])])
        doc["events"].sort(key=lambda e: e[0])
    # sections with identical or empty bodies are legal and make header->key mix-ups visible
    # that distinct contents would hide
    if len(doc["tracks"]) >= 2:
        x = g.random()
        if x < 0.2:
            i, j = g.sample(range(len(doc["tracks"])), 2)
            doc["tracks"][j] = [doc["tracks"][j][0]] + [list(v) for v in doc["tracks"][i][1:]]
        elif x < 0.3:
            for j in g.sample(range(len(doc["tracks"])), 2):
                doc["tracks"][j] = [doc["tracks"][j][0], [], [], []]
    secs = gen.sections(doc)
    n = len(secs)
    variants = []
    for vi in range(p.randint(6, 10)):
        order = list(range(n))
        if p.random() < 0.7:
            p.shuffle(order)
        vsecs = [secs[i] for i in order]
        unknown = []
        names = p.sample(UNKNOWN_NAMES, p.choice([0, 0, 1, 1, 2]))
        if p.random() < 0.25:
            # a case variant of one of the 40 names is not one of the 40 names
            h = p.choice(gen.ALL_HEADERS)
            cv = p.choice([h.lower(), h.upper(), h.swapcase(), h[0].lower() + h[1:],
                           h[:-1] + h[-1].upper(), h.capitalize()])
            if cv not in gen.HEADERS and cv not in names:
                names.append(cv)
        for name in names:
            body = [p.choice(UNKNOWN_BODY) for _ in range(p.randint(0, 4))]
            pos = p.randint(0, len(vsecs))
            vsecs = vsecs[:pos] + [[name, body]] + vsecs[pos:]
            unknown.append(name)
        nl = p.choice(["\n", "\r\n"])
        bom = p.random() < 0.35
        acc = _gen_access(p, bom)
        text = gen.render_sections(vsecs, newline=nl)
        data = (b"\xef\xbb\xbf" if bom else b"") + text.encode("utf-8")
        op = {"op": "parse", "text": vi, "select": None, **acc}
        if p.random() < 0.3:
            op["fname"] = p.choice(FILE_NAMES)
        if acc["via"] == "path" and p.random() < 0.12:
            op["special_file"] = True  # a FIFO / pipe / procfs-style file: stat says size 0
        if acc.get("reader") == "simtext" and p.random() < 0.4:
            # the caller's reader fails once (a pipe interrupted, a non-blocking source not
            # ready) after it has already consumed nothing / a little / whole sections
            starts = [i + 1 for i, ch in enumerate(text[:-1]) if ch in "\n" and text[i + 1] == "["]
            op["reader_fault"] = {"at": 1, "exc": p.choice(["InterruptedError", "BlockingIOError", "TimeoutError",
                                                            "OSError"]),
                                  "consume": p.choice([0, 3] + starts + starts)}
        if acc["via"] == "path" or acc.get("reader") in ("textio", "codecs", "simtext"):
            if sub == "eio" and acc.get("reader") != "simtext" and f.random() < 0.6:
                op["io"] = {"reads": [f.choice([1, 16, 64, 4096])], "eio_at": f.randint(1, 5)}
                op["eio"] = True
            elif p.random() < 0.8:
                op["io"] = parseop.gen_io_tape(io_r, data)
        variants.append({"order": order, "newline": nl, "bom": bom, "unknown": unknown,
                         "text": text, "op": op,
                         "permuted": order != list(range(n))})
    sc = rng.stream(seed, "sched")
    n_clients = 2 if index % 4 == 2 else 1
    schedule: dict[str, Any] = {"mode": "sequential", "seed": 0, "p_boundary": 0.0}
    if n_clients == 1 and doc["tracks"] and f.random() < 0.15:
        # an allocation failure (or another ordinary exception) inside the parse of one instrument
        # section: the read may fail; a chart that is returned must still hold every track
        vv = variants[f.randrange(len(variants))]
        vv["op"]["abort"] = {"in": f.choice(["InstrumentTrack", "_build_note_events", "NoteEvent.from_parsed",
                                             "SpecialEvent.from_parsed", "TrackEvent.from_parsed"]),
                             "at": f.choice([1, 2, 3, 5, 8, 13]),
                             "exc": f.choice(["MemoryError", "MemoryError", "OSError", "RuntimeError"])}
        schedule = {"mode": "geometric", "seed": 0, "gap": 10**9}  # tracing on, never a switch
    if n_clients > 1:
        schedule = {"mode": "geometric", "seed": sc.getrandbits(32), "gap": sc.choice([3, 10, 30, 200, 1000])}
        if sc.random() < 0.3:
            schedule = {"mode": "writes", "seed": sc.getrandbits(32), "p": sc.choice([0.1, 0.3, 0.6]),
                        "hold": sc.choice([20, 200, 1000, 4000])}
    predecessor = None
    predecessor_sel = None
    if p.random() < 0.4:
        # another chart parsed earlier in the same process: same instruments where possible, other
        # difficulties (nothing of it may turn up in the charts parsed afterwards)
        insts = sorted({gen.HEADERS[h][0] for h in headers})
        cand = [h for h in gen.ALL_HEADERS if gen.HEADERS[h][0] in insts and h not in headers]
        ph = p.sample(cand, min(len(cand), p.randint(1, 4))) if cand else p.sample(gen.ALL_HEADERS, 2)
        pdoc = gen.gen_doc(g, headers=ph, small=True)
        pdoc["unknown"] = []
        predecessor = gen.render(pdoc)
        predecessor_sel = ({"form": p.choice(["list", "tuple"]), "pairs": sorted(list(gen.HEADERS[h]) for h in ph)}
                           if p.random() < 0.5 else None)
    missing = p.randrange(3)
    msecs = [s for i, s in enumerate(secs) if i != missing]
    p.shuffle(msecs)
    return {"property": PROP, "seed": seed, "sub_batch": sub, "doc": doc,
            "n_clients": n_clients, "schedule": schedule, "predecessor": predecessor,
            "predecessor_select": predecessor_sel,
            "variants": variants, "missing": {"dropped": gen.REQUIRED[missing],
                                              "text": gen.render_sections(msecs, newline=p.choice(["\n", "\r\n"]))}}


# ----------------------------------------------------------------------------------------------
# routing model
# ----------------------------------------------------------------------------------------------

def expected_model(doc: dict[str, Any]) -> dict[str, Any]:
    """What the harness knows without consulting chartparse: which keys must exist and how each
    is labelled.  Content is judged *relative to the same code* (each section parsed alone), so
    that a defect in the instrument/metadata/event parsers themselves (other properties) is never
    reported as a routing violation."""
    tracks = {}
    for header, _groups, _sp, _ev in doc["tracks"]:
        inst, diff = gen.HEADERS[header]
        tracks[f"{inst}/{diff}"] = {"header": header}
    return {"tracks": tracks}


def isolated_track_digests(doc: dict[str, Any]) -> dict[str, str]:
    """key -> digest of the track obtained when its section is the only instrument section."""
    from detsim import world

    secs = gen.sections(doc)
    out = {}
    for sec in secs[3:]:
        header = sec[0]
        inst, diff = gen.HEADERS[header]
        key = f"{inst}/{diff}"
        try:
            chart = world.parse_text(gen.render_sections(secs[:3] + [sec]))
            obs = observe_chart(chart, ordered=False)
            out[key] = rng.digest(obs["tracks"].get(key))
        except Exception as e:  # noqa: BLE001
            out[key] = "exc:" + type(e).__name__
    return out


def _canonical_reference(doc: dict[str, Any]) -> dict[str, Any]:
    """Canonical variant (LF, no BOM, canonical order, StringIO) and the isolated-section parses,
    computed in a process forked from the pristine image."""
    from detsim import world

    world.reference_process_state()
    world.drain_log()
    try:
        canon = world.parse_text(gen.render(doc))
    except Exception as e:  # noqa: BLE001
        return {"error": type(e).__name__}
    log = world.drain_log()
    obs = observe_chart(canon, ordered=False)
    iso = isolated_track_digests(doc)
    return {"obs": obs, "msgs": sorted(r[2] for r in log), "iso": iso}


def check_routing(obs: dict[str, Any], model: dict[str, Any],
                  iso: dict[str, str] | None = None) -> tuple[str, str] | None:
    want_keys = sorted(model["tracks"])
    got_keys = sorted(obs["tracks"])
    if want_keys != got_keys:
        return "routing-keys", f"track keys {got_keys} but the file has sections for {want_keys}"
    for key, m in model["tracks"].items():
        t = obs["tracks"][key]
        if f"{t['instrument']}/{t['difficulty']}" != key:
            return "routing-label", f"track stored under {key} is labelled {t['instrument']}/{t['difficulty']}"
        if t["header_tag"] != m["header"]:
            return "routing-label", f"track {key} reports header_tag {t['header_tag']!r}, file says {m['header']!r}"
        if iso is not None and rng.digest(t) != iso[key]:
            return "routing-content", (f"track {key} differs from the track parsed from section "
                                       f"[{m['header']}] alone: the section's body lines did not reach "
                                       "(only) this track")
    return None


# ----------------------------------------------------------------------------------------------
# execution
# ----------------------------------------------------------------------------------------------

def _dimension(v: dict[str, Any], fired: bool) -> str:
    dims = []
    if v["permuted"]:
        dims.append("order")
    if v["newline"] != "\n":
        dims.append("newline")
    if v["bom"]:
        dims.append("bom")
    if v["unknown"]:
        dims.append("unknown")
    op = v["op"]
    if not (op["via"] == "file" and op.get("reader") == "stringio" and op.get("newline") == "\n"):
        dims.append("reader")
    if fired:
        dims.append("chunking")
    return "+".join(dims) or "canonical"


def execute(plan: dict[str, Any]) -> dict[str, Any]:
    import hashlib

    from detsim import world

    world.install_log_sink()
    ev = hashlib.sha256()
    violations: list[dict[str, Any]] = []
    fired: dict[str, int] = {}
    probes: dict[str, int] = {}
    nontrivial = []
    doc = plan["doc"]
    model = expected_model(doc)
    # Reference from a pristine forked process; nothing is parsed in this process before the
    # (possibly concurrent) clients start, so process-wide lazily initialised state is met cold.
    try:
        refd = runner.in_fork(_canonical_reference, doc, timeout=150)
    except runner.ChildFailure as e:
        return {"violations": [], "digest": "", "evals": 1,
                "harness_error": f"reference computation failed: {e}"}
    if "error" in refd:
        from detsim import crossmode

        if crossmode.slice_name():
            # this run is made in an interpreter-configuration slice (python -O / -OO, C locale):
            # if the very same tree parses the canonical text in a default-mode interpreter, the
            # chart is fine and its sections were NOT delivered here - framing must not depend on
            # how the interpreter was started
            out = crossmode.fresh_default_outcome(gen.render(doc).encode("utf-8"))
            if out is not None and out.get("kind") == "ok":
                return {"violations": [{
                    "sig": f"C06/invariance/interpreter-configuration/{refd['error']}",
                    "detail": f"the canonical variant raises {refd['error']} in this interpreter "
                              f"configuration ({crossmode.slice_name()}) and parses in a default-mode "
                              "interpreter of the same tree"}],
                    "digest": rng.digest(["interp-config", refd["error"]]), "evals": 1, "nontrivial": []}
        raise Discard("canonical-variant-rejected:" + refd["error"])
    canon_obs = refd["obs"]
    canon_digest = rng.digest(canon_obs)
    canon_msgs = refd["msgs"]
    iso = refd["iso"]
    bad = check_routing(canon_obs, model, iso)
    if bad:
        violations.append({"sig": f"C06/{bad[0]}/canonical/-", "detail": "canonical variant: " + bad[1]})
    for h in model["tracks"].values():
        probes["header:" + h["header"]] = 1
    fs = simfs.SimFS(os.path.join(env.scratch(), "simfs", f"run-{os.getpid()}"))
    fs.install()
    n_clients = int(plan.get("n_clients") or 1)
    sched = Scheduler(plan.get("schedule") or {"mode": "sequential", "seed": 0, "p_boundary": 0.0},
                      n_clients, env.PKG_DIR, preempt_lines=not env.package_uses_locks_or_threads())
    records: dict[int, Any] = {}
    if plan.get("predecessor") and n_clients == 1:
        try:
            world.parse_text(plan["predecessor"], plan.get("predecessor_select"))
            probes["predecessor_chart_parsed_first"] = 1
        except Exception:  # noqa: BLE001
            pass
        world.drain_log()

    def body_for(ci: int) -> Any:
        mine = list(range(len(plan["variants"])))[ci::n_clients]

        def body(client: Any) -> None:
            for k, vi in enumerate(mine):
                v = plan["variants"][vi]
                op = v["op"]
                data = (b"\xef\xbb\xbf" if v["bom"] else b"") + v["text"].encode("utf-8")
                before = dict(fs.stats)
                sched.begin_op(client, k, op.get("abort"))
                chart = None
                err: BaseException | None = None
                op_rt = op
                if op.get("reader_fault"):
                    from detsim.sched import make_abort_exc

                    op_rt = {**op, "reader_fault": {**op["reader_fault"],
                                                    "exc_obj": make_abort_exc(op["reader_fault"]["exc"])}}
                try:
                    chart = parseop.do_parse(fs, op_rt, data, f"v{vi}")
                except HarnessError:
                    raise
                except BaseException as e:  # noqa: BLE001
                    err = e
                sched.end_op(client)
                aborted = client.abort_fired_at is not None
                rd = (op_rt.get("reader_fault") or {}).get("reader")
                if rd is not None and rd.fault_fired:
                    fired["reader_raises_after_consuming"] = fired.get("reader_raises_after_consuming", 0) + 1
                    if err is not None:
                        continue  # may fail ... (a chart that is returned is judged like any other)
                with sched.atomic(client):
                    if aborted:
                        fired["abort_in_section_parse"] = fired.get("abort_in_section_parse", 0) + 1
                        if err is not None:
                            continue  # may fail (any exception) ...
                        probes["abort_swallowed_chart_returned"] = probes.get("abort_swallowed_chart_returned", 0) + 1
                        # ... never wrong data: judged below like any other variant
                    delta = {kk: fs.stats.get(kk, 0) - before.get(kk, 0) for kk in fs.stats}
                    records[vi] = (chart, err, list(client.log),
                                   {kk: n for kk, n in delta.items() if n})
                    sched.record("op", ci, vi, "exc" if err else "ok")
        return body

    harness_error = None
    try:
        try:
            sched.run([body_for(i) for i in range(n_clients)])
        except SimDeadlock as e:
            # threads / locks the library made itself, all of them scheduled by the simulator:
            # under this schedule a call never returns (its reference does)
            return deadlock_result(PROP, e, sched)
        except HarnessError as e:
            harness_error = str(e)
        world.drain_log()
        # local canonical parse, made after the simulation, only for the library's own == (used
        # only if it is observably the pristine reference; otherwise history dependence of
        # parsing itself is at work, which is C17's to report)
        canon = None
        try:
            c2 = world.parse_text(gen.render(doc))
            if rng.digest(observe_chart(c2, ordered=False)) == canon_digest:
                canon = c2
        except Exception:  # noqa: BLE001
            canon = None
        world.drain_log()
        for vi, v in enumerate(plan["variants"]):
            if vi not in records:
                continue
            op = v["op"]
            chart, err, log, delta = records[vi]
            for k, n in delta.items():
                fired[k] = fired.get(k, 0) + n
            dim = _dimension(v, bool(delta) if n_clients == 1 else bool(op.get("io")))
            if dim != "canonical":
                nontrivial.append(rng.digest([v["text"], v["bom"], op]))
            if op.get("eio") and fs.path(parseop.stored_name(op, f"v{vi}") + ".chart") in fs.eio_raised:
                # relaxed oracle under an injected read error: the parse may fail (with that
                # OSError or any other exception), it must never return WRONG data.  A chart that
                # is returned nevertheless goes through the ordinary invariance comparison below.
                ok = isinstance(err, OSError) and err.errno == errno.EIO
                ev.update(f"{vi}:eio:{ok};".encode())
                if err is not None:
                    if not ok:
                        probes["eio_converted_to_other_exception"] = probes.get(
                            "eio_converted_to_other_exception", 0) + 1
                    continue
                probes["eio_swallowed_chart_returned"] = probes.get("eio_swallowed_chart_returned", 0) + 1
            if err is not None:
                ev.update(f"{vi}:exc:{type(err).__name__};".encode())
                violations.append({"sig": f"C06/invariance/{dim}/{type(err).__name__}",
                                   "detail": f"variant {vi} ({dim}; access {_acc(op)}): parse raised "
                                             f"{exc_token(err)} although the canonical variant parses"})
                continue
            obs = observe_chart(chart, ordered=False)
            dg = rng.digest(obs)
            ev.update(f"{vi}:{dg};".encode())
            bad = check_routing(obs, model)
            if bad:
                violations.append({"sig": f"C06/{bad[0]}/{dim}/-",
                                   "detail": f"variant {vi} ({dim}; access {_acc(op)}): {bad[1]}"})
                continue
            if dg != canon_digest:
                violations.append({"sig": f"C06/invariance/{dim}/-",
                                   "detail": f"variant {vi} ({dim}; access {_acc(op)}): observation "
                                             f"differs from the canonical variant: {_first_diff(obs, canon_obs)}"})
                continue
            try:
                same = canon is None or (bool(chart == canon) and bool(canon == chart))
            except BaseException:  # noqa: BLE001
                same = False
            if not same:
                violations.append({"sig": f"C06/invariance/{dim}/eq",
                                   "detail": f"variant {vi} ({dim}): chart != canonical chart"})
                continue
            # every unknown section is reported exactly once, and everything else that is logged
            # equals what the canonical variant logs.  Reports are COUNTED (the wording of a
            # report is not part of the property): the variant's log must be the canonical
            # variant's log plus exactly one record per unknown section.
            msgs = [r[2] for r in log if not r[2].startswith(world.UNFORMATTABLE)]
            rest = list(msgs)
            lacking = []
            for m in canon_msgs:
                if m in rest:
                    rest.remove(m)
                else:
                    lacking.append(m)
            if lacking:
                violations.append({"sig": f"C06/invariance/{dim}/warnings",
                                   "detail": f"variant {vi} ({dim}): reports of the canonical variant are "
                                             f"missing from this variant's log: {lacking[:3]}"})
            elif len(rest) != len(v["unknown"]):
                violations.append({"sig": f"C06/unknown-warning/{dim}/{min(len(rest), len(v['unknown']) + 1)}",
                                   "detail": f"variant {vi} ({dim}): {len(v['unknown'])} unknown section(s) "
                                             f"{v['unknown']} but {len(rest)} report(s) beyond those of the "
                                             f"canonical variant: {rest[:4]} (an unknown section not "
                                             "reported once, or its body parsed?)"})
        # [Events] feeds the global events (relative): with its body emptied the three lists are
        # empty and everything else is unchanged
        secs0 = gen.sections(doc)
        secs0[2][1] = []
        try:
            ce = world.parse_text(gen.render_sections(secs0))
            oe = observe_chart(ce, ordered=False)
            if any(oe["globals"][k] for k in ("text", "section", "lyric")):
                violations.append({"sig": "C06/routing-content/events-emptied/-",
                                   "detail": "global events remain although the [Events] body is empty"})
            elif rng.digest([oe["sync"], oe["tracks"], oe["meta"]]) != rng.digest(
                    [canon_obs["sync"], canon_obs["tracks"], canon_obs["meta"]]):
                violations.append({"sig": "C06/routing-content/events-emptied/others-changed",
                                   "detail": "emptying the [Events] body changed metadata, sync track or "
                                             "instrument tracks"})
        except Exception as e:  # noqa: BLE001
            violations.append({"sig": f"C06/routing-content/events-emptied/{type(e).__name__}",
                               "detail": f"file with an empty [Events] body raised {exc_token(e)}"})
        world.drain_log()
        # (d) a file lacking a required section
        try:
            world.parse_text(plan["missing"]["text"], newline=None)
            got = "returned a chart"
        except ValueError:
            got = None
        except BaseException as e:  # noqa: BLE001
            got = f"raised {exc_token(e)}"
        ev.update(f"missing:{got};".encode())
        if got is not None:
            violations.append({"sig": f"C06/required-missing/{plan['missing']['dropped']}/-",
                               "detail": f"file without [{plan['missing']['dropped']}] {got} instead "
                                         "of raising ValueError"})
    finally:
        fs.uninstall()
    # not a verdict: no property speaks about file handles (see DESIGN.md 11.2, second false alarm)
    probes["handles_left_open_at_end_of_run"] = fs.unclosed()
    by_path = sum(1 for v in plan["variants"] if v["op"]["via"] == "path")
    probes["seam_bypassed"] = max(0, by_path - len(fs.opened))
    probes["opens_through_seam"] = len(fs.opened)
    probes["all_40_headers_in_one_doc"] = 1 if len(doc["tracks"]) == 40 else 0
    probes["file_above_16KiB"] = 1 if any(len(v["text"]) > 16384 for v in plan["variants"]) else 0
    world.drain_log()
    import shutil

    shutil.rmtree(fs.root, ignore_errors=True)
    return {
        "violations": violations[:4],
        "digest": rng.digest([ev.hexdigest(), sched.events.hexdigest()])[:32],
        "evals": len(plan["variants"]) + 3 + len(doc["tracks"]),
        "nontrivial": nontrivial,
        "faults_fired": {k: v for k, v in fired.items() if k in (
            "short_read", "eintr", "eio", "split_crlf", "split_bom", "split_multibyte", "forced_split")},
        "probes": {**probes, **sched.probes},
        "ops": len(plan["variants"]) + 2,
        "sub_batch": plan["sub_batch"] + ("/concurrent" if n_clients > 1 else ""),
        "harness_error": harness_error,
        "sim_steps": sched.global_step,
        "switches": sched.switches,
        "mid_op_switches": sched.mid_op_switches,
        "interleaving": sched.interleaving.hexdigest()[:32] if n_clients > 1 else None,
        "sched_mode": sched.mode,
        "explicit_schedule": sched.explicit_schedule(),
        "sample": {"headers": [t[0] for t in doc["tracks"]][:8],
                   "variants": [{"order": v["order"][:12], "newline": v["newline"], "bom": v["bom"],
                                 "unknown": v["unknown"], "access": _acc(v["op"]),
                                 "io": {k: (x if not isinstance(x, list) else x[:6])
                                        for k, x in (v["op"].get("io") or {}).items() if k != "split_kinds"}}
                                for v in plan["variants"][:3]]},
    }


def _acc(op: dict[str, Any]) -> str:
    if op["via"] == "path":
        return "path"
    return f"file/{op.get('reader')}/newline={op.get('newline')!r}/{op.get('encoding') or 'utf-8'}"


def _first_diff(a: Any, b: Any, path: str = "") -> str:
    if type(a) is not type(b):
        return f"{path}: {str(a)[:80]} != {str(b)[:80]}"
    if isinstance(a, dict):
        for k in sorted(set(a) | set(b)):
            if a.get(k) != b.get(k):
                return _first_diff(a.get(k), b.get(k), f"{path}/{k}")
    elif isinstance(a, list):
        if len(a) != len(b):
            return f"{path}: length {len(a)} != {len(b)}"
        for i, (x, y) in enumerate(zip(a, b)):
            if x != y:
                return _first_diff(x, y, f"{path}[{i}]")
    return f"{path}: {str(a)[:80]} != {str(b)[:80]}"


def shrink(plan: dict[str, Any]):
    vs = plan["variants"]
    seq = {"n_clients": 1, "schedule": {"mode": "sequential", "seed": 0, "p_boundary": 0.0}}
    if int(plan.get("n_clients") or 1) > 1:
        yield {**plan, **seq}
    if len(vs) > 1:
        for v in vs:
            yield {**plan, **seq, "variants": [v]}
        if int(plan.get("n_clients") or 1) > 1:
            for i in range(len(vs)):
                for j in range(i + 1, len(vs)):
                    yield {**plan, "variants": [vs[i], vs[j]]}
            yield from minimize.shrink_schedule(plan)
    if len(vs) == 1:
        v = vs[0]
        op = v["op"]
        if op.get("io"):
            yield {**plan, "variants": [{**v, "op": {k: x for k, x in op.items() if k not in ("io", "eio")}}]}
    doc = plan["doc"]
    if len(doc["tracks"]) > 1 and len(vs) == 1 and not vs[0]["permuted"]:
        pass
