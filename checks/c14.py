"""C14 — unrecognised lines are skipped locally; each line is claimed at most once.

Line-granular storage faults on one section of a stored chart: junk / foreign-line insertion with
multiplicity, then moving and deleting the inserted unparsable lines, and garbling of a parsable
line.  Oracles:
 (1) locality     - events of every damaged variant equal those of the undamaged file (garbled
                    parsable line: outcome equals that of the file with that line deleted);
 (2) conservation - at the dispatcher seam: lines in = data out + 'unparsable' reports; every
                    strict junk line is reported;
 (3) schedule seam- for sync and instrument kind lists the dispatcher is re-run with the kinds in
                    a plan-chosen permuted order and must give the same map; every line seen is
                    tried on every kind and may have at most one claimant.
Strict junk = shapes the property texts themselves call unparsable (garbage, lines of foreign
sections, unsupported indices); every other candidate is judged relative to the code's own
verdict (reported => must be local).
"""

from __future__ import annotations

import copy
import os
import re
from typing import Any

from detsim import corrupt, env, gen, minimize, monitors, rng
from detsim.observe import exc_token, observe_chart
from detsim.sched import HarnessError, Scheduler, SimDeadlock, deadlock_result

PROP = "C14"
LEVEL = "exploration"
RUNS = {"quick": 3200, "thorough": 60000}
BUDGET_S = {"quick": 150, "thorough": 1500}
RULE = ("each evaluation is one stored variant (junk inserted with multiplicity / one junk line "
        "moved / one junk line deleted / a parsable line garbled / that line deleted) of a "
        "generated chart parsed once under the dispatcher monitor. Distinct = distinct variant "
        "text digest; non-trivial = the variant contains at least one injected junk line or a "
        "garbled/deleted line. A fifth of the runs read every variant through a reader whose "
        "sized reads return short; a quarter parse their variants from two concurrent clients")
ASSUMPTIONS = [
    "'no string can be claimed by two kinds' quantifies over all strings; simulation monitors it "
    "on the lines that occur in runs (generated, corrupted and junk lines) and does not decide it "
    "for the infinite language",
    "[Song] is outside the conservation clause (no event kinds, reports nothing); only 'events "
    "unchanged' is judged for junk placed there",
    "strict junk shapes are only those the property texts call unparsable; accidents of the "
    "current recognisers are judged relative to the code's own verdict",
]

STRICT = {
    "instrument": ["", "   ", "free text", "some more free text here", "{t} = N 8 0", "{t} = N 9 10",
                   "{t} = S 64 10", "{t} = E two words", "{t} = B 120000", "{t} = TS 4",
                   "{t} = TS 4 2", "{t} = A 1000", '{t} = E "lyric la la"', '{t} = E "section x y"',
                   "Resolution = 192", 'Name = "x y"'],
    "sync": ["", "   ", "free text", "{t} = N 0 0", "{t} = N 5 0", "{t} = S 2 10", "{t} = E solo",
             '{t} = E "section a"', '{t} = E "lyric b"', "Resolution = 192", 'Name = "x y"'],
    "events": ["", "   ", "free text", "{t} = N 0 0", "{t} = S 2 10", "{t} = E solo",
               "{t} = E soloend", "{t} = B 120000", "{t} = TS 4", "{t} = A 1000",
               "Resolution = 192"],
    "song": ["", "free text", "{t} = N 0 0", "{t} = B 120000", "{t} = TS 4"],
}
# Garbage that merely LOOKS structural: body lines are rendered with the usual two-blank
# indentation, so these end up as "  {", "  }", "  [Song]" - not the bare structural lines of the
# format but ordinary unparsable content of the body.
for _fam in STRICT:
    STRICT[_fam] = STRICT[_fam] + ["{", "}", "} ", "[Song]", "[ExpertSingle]"]
# Free text with characters that are special to formatting layers (logging %-formatting,
# str.format, escapes): still just free text for the parser.
for _fam in ("instrument", "sync", "events"):
    STRICT[_fam] = STRICT[_fam] + ["100% free text", "%s and %d", "50%", "{0} and {name}", "{}",
                                   "back\\slash \\n", "%(name)s"]
RELATIVE = {
    "instrument": ["= = =", "12 34", "{t} = ", "{t} = Q 1 2", "{t} = N", "N 0 0", "{t} == N 0 0",
                   "zero = N 0 0", "{t} = n 0 0", "{t} = N 0 0 0 junk", "-5 = N 0 0", "{t} = S 0 10",
                   "{t} = S 1 10", "{t} = N 0", "{t} = N 0 x", "{t}= N 0 0", "{t} = S 2", "[x]",
                   "{t} = E", "{t} = N 1 0 ", " {t} = N 1 0"],
    "sync": ["= = =", "{t} = B", "{t} = TS", "{t} = B x", "{t} = B 12.5", "{t} = TS 4 2 1",
             "{t} = A", "{t} = BPM 120000", "{t} = A 5 ", "{t} = b 120000", "-1 = B 120000",
             "{t} = TS 4 ", "{t}  = B 120000"],
    "events": ["= = =", '{t} = E "has "inner" quotes"', "{t} = E 'single'", '{t} = E "unterminated',
               '{t} = E ""', '{t} = e "text"', '{t} = E "text" x', '{t} = E  "two blanks"'],
    "song": ["Unknown = 5", "Resolutio = 192", "= 192", "resolution = 192"],
}


def family(section: str) -> str:
    return {"SyncTrack": "sync", "Events": "events", "Song": "song"}.get(section, "instrument")


def make_plan(seed: int, tier: str, index: int) -> dict[str, Any]:
    g = rng.stream(seed, "gen")
    f = rng.stream(seed, "fault")
    s = rng.stream(seed, "sched")
    doc = gen.gen_doc(g, max_tracks=3, small=g.random() < 0.6)
    doc["unknown"] = []
    if index % 100 == 41:
        # an [Events] section of several thousand lines, mostly plain text events (counters,
        # periodic re-tuning and other thresholds that a handful of lines never reach)
        t0 = doc["events"][-1][0] if doc["events"] else 0
        for i in range(g.choice([4300, 5200, 9000])):
            t0 += g.choice([0, 1, 3])
            k = g.choice(["text", "text", "text", "lyric", "section"])
            doc["events"].append([t0, k, g.choice(["phrase_start", "phrase_end", "la", "verse 2", "x"])])
    secs = gen.sections(doc)
    names = [sec[0] for sec in secs]
    weights = [("Song", 1)] + [("SyncTrack", 4), ("Events", 4)] + [(n, 5) for n in names[3:]]
    target = f.choice([n for n, w in weights for _ in range(w)])
    ti = names.index(target)
    fam = family(target)
    body = list(secs[ti][1])
    junk = []
    for _ in range(f.choice([1, 1, 2, 3, 5])):
        strict = f.random() < 0.7
        tmpl = f.choice(STRICT[fam] if strict else RELATIVE[fam])
        line = tmpl.replace("{t}", str(f.choice([0, 1, 50, 192, 99999])))
        flood = f.random() < 0.04
        for _m in range(f.choice([1, 1, 1, 2, 3]) if not flood else f.choice([101, 128, 257, 300, 1100, 3100])):
            junk.append({"line": line, "strict": strict})
    # A: junk inserted at random positions
    a_body = [{"line": ln, "junk": None} for ln in body]
    for j in junk:
        a_body.insert(f.randint(0, len(a_body)), {"line": j["line"], "junk": j})
    variants: list[dict[str, Any]] = []

    def text_of(rows: list[dict[str, Any]]) -> str:
        s2 = copy.deepcopy(secs)
        s2[ti][1] = [r["line"] for r in rows]
        return gen.render_sections(s2)

    def junk_of(rows: list[dict[str, Any]]) -> list[dict[str, Any]]:
        return [r["junk"] for r in rows if r["junk"] is not None]

    variants.append({"name": "O", "text": gen.render_sections(secs), "junk": [], "like": None})
    variants.append({"name": "A", "text": text_of(a_body), "junk": junk_of(a_body), "like": "O"})
    jpos = [i for i, r in enumerate(a_body) if r["junk"] is not None]
    if jpos:
        i = f.choice(jpos)
        b_body = list(a_body)
        row = b_body.pop(i)
        b_body.insert(f.randint(0, len(b_body)), row)
        variants.append({"name": "B", "text": text_of(b_body), "junk": junk_of(b_body), "like": "O",
                         "fault": "junk_move"})
        i = f.choice(jpos)
        c_body = a_body[:i] + a_body[i + 1:]
        variants.append({"name": "C", "text": text_of(c_body), "junk": junk_of(c_body), "like": "O",
                         "fault": "junk_delete"})
    if body and fam != "song":
        i = f.randrange(len(body))
        tmpl = f.choice(STRICT[fam])
        gl = {"line": tmpl.replace("{t}", body[i].split(" = ")[0].strip() or "0"), "strict": True}
        g_rows = [{"line": ln, "junk": None} for ln in body]
        g_rows[i] = {"line": gl["line"], "junk": gl}
        d_rows = [{"line": ln, "junk": None} for k, ln in enumerate(body) if k != i]
        variants.append({"name": "D", "text": text_of(d_rows), "junk": [], "like": None,
                         "fault": "line_delete"})
        variants.append({"name": "G", "text": text_of(g_rows), "junk": [gl], "like": "D",
                         "fault": "garble_line"})
    # a variant whose text equals an earlier variant's adds nothing (and a correct result cache
    # keyed by the text would legitimately not report a second time): dropped
    seen_texts: set[str] = set()
    uniq = []
    for v in variants:
        if v["text"] in seen_texts and v["name"] not in ("O",):
            continue
        seen_texts.add(v["text"])
        uniq.append(v)
    variants = [v for v in uniq if v.get("like") is None or any(u["name"] == v["like"] for u in uniq)]
    concurrent = index % 4 == 3 and index % 100 != 41 and len(junk) < 1000  # huge inputs: sequential
    log_off_first = False
    if not concurrent and index % 100 != 41 and len(junk) < 1000 and f.random() < 0.15 and len(variants) >= 2:
        # an allocation failure inside the recogniser of some line of variant A: the parse may
        # fail; if it returns, every line must still have contributed its datum or been reported
        variants.append({"name": "A!", "text": variants[1]["text"], "junk": variants[1]["junk"],
                         "like": "A", "fault": "abort_in_recogniser",
                         "abort": {"in": f.choice(["from_chart_line", "from_chart_line", "parse_data_from"]),
                                   "at": f.choice([1, 2, 3, 5, 8, 13, 21, 34, 55]),
                                   "exc": f.choice(["MemoryError", "MemoryError", "SimAbort"])}})
        # ... and afterwards the junk-free file once more: whatever the aborted parse had
        # collected but not yet reported must not be reported against another file
        variants.append({"name": "O~", "text": variants[0]["text"], "junk": [], "like": "O",
                         "fault": "parse_after_aborted_parse"})
    elif not concurrent and f.random() < 0.12:
        # logging state is part of the process history: the first chart of the process is parsed
        # while the application has logging switched off; then logging is switched on again
        log_off_first = True
    schedule: dict[str, Any] = {"mode": "sequential", "seed": 0, "p_boundary": 0.0}
    if any(v.get("abort") for v in variants):
        schedule = {"mode": "geometric", "seed": 0, "gap": 10**9}  # one client: tracing on, no switch
    if concurrent:
        schedule = {"mode": "geometric", "seed": s.getrandbits(32), "gap": s.choice([5, 30, 200])}
        if s.random() < 0.35:
            schedule = {"mode": "writes", "seed": s.getrandbits(32), "p": s.choice([0.1, 0.3, 0.6]),
                        "hold": s.choice([20, 200, 1000, 4000])}
    plan = {"property": PROP, "seed": seed, "target": target, "family": fam, "variants": variants,
            "concurrent": concurrent, "schedule": schedule, "permute_seed": f.getrandbits(16),
            "log_off_first": log_off_first}
    if f.random() < 0.2:
        # every variant is read through a reader whose sized reads / readline return short
        # (legal): inserting junk shifts where those short reads end
        plan["reader_chunk"] = f.choice([1, 5, 7, 13, 64, 257])
    return plan


def execute(plan: dict[str, Any]) -> dict[str, Any]:
    from detsim import world

    world.install_log_sink()
    violations: list[dict[str, Any]] = []
    fam = plan["family"]
    mon = monitors.DispatchMonitor(permute_seed=plan["permute_seed"])
    mon.install()
    results: dict[str, dict[str, Any]] = {}
    variants = plan["variants"]

    def parse_variant(v: dict[str, Any]) -> None:
        monitors.set_tag(v["name"])
        logref = world.current_log()
        n0 = len(logref)
        try:
            if plan.get("reader_chunk"):
                from chartparse.chart import Chart
                from detsim import simfs

                chart = Chart.from_file(simfs.SimText(v["text"], chunk=int(plan["reader_chunk"])))
            else:
                chart = world.parse_text(v["text"])
            out: dict[str, Any] = {"kind": "ok", "digest": rng.digest(observe_chart(chart))}
            if fam == "song":
                o = observe_chart(chart)
                out["digest"] = rng.digest({k: x for k, x in o.items() if k not in ("meta", "str", "repr")})
        except HarnessError:
            raise
        except BaseException as e:  # noqa: BLE001 - injected aborts are BaseExceptions
            out = {"kind": "exc", "type": type(e).__name__, "exc": exc_token(e)}
        out["log"] = [r for r in logref[n0:]]
        results[v["name"]] = out

    harness_error = None
    n_clients = 2 if plan["concurrent"] and len(variants) >= 2 else 1
    sched = Scheduler(plan["schedule"], n_clients, env.PKG_DIR,
                      preempt_lines=not env.package_uses_locks_or_threads())
    parts = [variants[i::n_clients] for i in range(n_clients)]

    def body_for(ci: int) -> Any:
        def body(client: Any) -> None:
            if ci == 0 and n_clients == 1 and plan.get("log_off_first") and len(variants) >= 2:
                import logging

                logging.disable(logging.CRITICAL)
                try:
                    with monitors.bypass():  # nothing is reported while logging is off: not judged
                        # (a text of its own, so that a result cache keyed by the text - which
                        # would legitimately return variant A without parsing it again - stays
                        # out of the picture)
                        world.parse_text(variants[1]["text"].replace("[Song]", "[Song]", 1)
                                         + "\n[LoggingOffFirst]\n{\n  junk\n}\n")
                except Exception:  # noqa: BLE001
                    pass
                finally:
                    logging.disable(logging.NOTSET)
                del client.log[:]
            for k, v in enumerate(parts[ci]):
                sched.begin_op(client, k, v.get("abort"))
                parse_variant(v)
                results[v["name"]]["aborted"] = client.abort_fired_at is not None
                sched.end_op(client)
                sched.record("op", ci, k, v["name"], results[v["name"]]["kind"],
                             results[v["name"]].get("digest"))
        return body

    try:
        sched.run([body_for(i) for i in range(n_clients)])
    except SimDeadlock as e:
        # threads / locks the library made itself, all of them scheduled by the simulator:
        # under this schedule a call never returns (its reference does)
        return deadlock_result(PROP, e, sched)
    except HarnessError as e:
        harness_error = str(e)
    finally:
        mon.uninstall()
    world.drain_log()

    junk_class = "strict"
    fired: dict[str, int] = {}
    nontrivial = []
    for v in variants:
        if v.get("fault"):
            fired[v["fault"]] = fired.get(v["fault"], 0) + 1
        n_j = len(v["junk"])
        if n_j:
            fired["junk_insert_strict"] = fired.get("junk_insert_strict", 0) + sum(1 for j in v["junk"] if j["strict"])
            fired["junk_insert_relative"] = fired.get("junk_insert_relative", 0) + sum(1 for j in v["junk"] if not j["strict"])
        if n_j or v.get("fault"):
            nontrivial.append(rng.digest(v["text"]))

    def add(oracle: str, cls: str, detail: str) -> None:
        violations.append({"sig": f"C14/{oracle}/{fam}/{cls}", "detail": detail})

    # (2)+(3): dispatcher monitor
    for pr in mon.problems:
        add(pr["oracle"], "-", f"variant {pr['rec']['tag']} kinds {pr['rec']['kinds']}: {pr['detail']}")
    if harness_error is None:
        for v in variants:
            r = results.get(v["name"])
            if r is None:
                continue
            # the code's own verdict on each injected line, from the dispatcher monitor (every
            # kind of the section's own dispatcher was tried on it): [] = unparsable, None = the
            # monitor did not see the line (seam absent on this tree)
            all_reported = True
            expected_reports: int | None = 0
            for j in v["junk"]:
                verdict = mon.claims.get("  " + j["line"])
                if verdict is None or verdict:
                    all_reported = False
                if j["strict"] or verdict == []:
                    if expected_reports is not None:
                        expected_reports += 1
                elif verdict is None:
                    expected_reports = None  # relative candidate of unknown status: no count claim
            like = v.get("like")
            if like is None or like not in results:
                continue
            ref = results[like]
            if v.get("abort"):
                if not r.get("aborted"):
                    continue  # the fault point was not reached: nothing to judge here
                fired["abort_in_recogniser_fired"] = fired.get("abort_in_recogniser_fired", 0) + 1
                if r["kind"] == "ok" and ref["kind"] == "ok" and (
                        r.get("digest") != ref.get("digest") or _n_reports(r) != _n_reports(ref)):
                    add("locality", "fault-swallowed",
                        f"variant {v['name']}: {v['abort']['exc']} injected in a recogniser was swallowed "
                        f"and the parse returned {_short(r)} with {_n_reports(r)} report(s); the same file "
                        f"without the fault gives {_short(ref)} with {_n_reports(ref)} report(s)")
                continue
            strict_only = all(j["strict"] for j in v["junk"])
            # "reported once": counted, never matched by text (the wording of a report is not part
            # of the property): the variant must produce exactly one renderable report more than
            # its junk-free relative for every injected line that is unparsable
            if (fam != "song" and r["kind"] == "ok" and ref["kind"] == "ok"
                    and expected_reports is not None and (v["junk"] or v["name"] == "O~")):
                delta = _n_reports(r) - _n_reports(ref)
                if delta != expected_reports:
                    cls = "strict-junk-not-reported" if delta < expected_reports else "over-reported"
                    add("conservation", cls,
                        f"variant {v['name']}: {len(v['junk'])} line(s) {[j['line'] for j in v['junk']][:4]} "
                        f"inserted into [{plan['target']}], {expected_reports} of them unparsable, but the "
                        f"parse made {delta} report(s) more than variant {like} "
                        f"(reports: {[x[2] for x in r['log']][:4]})")
            judge = strict_only or all_reported
            if not judge:
                continue  # a relative candidate the code chose to parse: no locality claim
            same = (r["kind"] == ref["kind"]
                    and (r.get("digest") == ref.get("digest") if r["kind"] == "ok"
                         else r.get("type") == ref.get("type")))
            if not same:
                cls = "strict" if strict_only else "relative-reported"
                add("locality", f"{cls}/{v.get('fault') or 'junk_insert'}",
                    f"variant {v['name']} ({[j['line'] for j in v['junk']][:4]} in [{plan['target']}]) "
                    f"gives {_short(r)} but variant {like} gives {_short(ref)}")
    probes = dict(mon.probes)
    probes["dispatcher_calls"] = len(mon.calls)
    probes["short_reading_reader_runs"] = 1 if plan.get("reader_chunk") else 0
    probes["first_parse_with_logging_off_runs"] = 1 if plan.get("log_off_first") else 0
    sched.record("violations", [x["sig"] for x in violations])
    return {
        "violations": violations[:4],
        "digest": sched.events.hexdigest()[:32],
        "evals": len(variants),
        "nontrivial": nontrivial,
        "faults_fired": fired,
        "probes": {**probes, **sched.probes},
        "sim_steps": sched.global_step,
        "ops": len(variants),
        "switches": sched.switches,
        "mid_op_switches": sched.mid_op_switches,
        "interleaving": sched.interleaving.hexdigest()[:32] if n_clients > 1 else None,
        "sched_mode": sched.mode,
        "sub_batch": ("concurrent/" if n_clients > 1 else "single/") + fam,
        "sample": {"target": plan["target"],
                   "variants": [{"name": v["name"], "fault": v.get("fault"),
                                 "junk": [j["line"] for j in v["junk"]][:5]} for v in variants]},
        "harness_error": harness_error,
        "explicit_schedule": sched.explicit_schedule(),
    }


def _n_reports(r: dict[str, Any]) -> int:
    from detsim import world

    return sum(1 for x in r["log"] if not x[2].startswith(world.UNFORMATTABLE))


def _short(r: dict[str, Any]) -> str:
    return str({k: v for k, v in r.items() if k != "log"})[:200]


def shrink(plan: dict[str, Any]):
    vs = plan["variants"]
    if plan.get("concurrent"):
        yield {**plan, "concurrent": False, "schedule": {"mode": "sequential", "seed": 0, "p_boundary": 0.0}}
    for v in vs:
        if v.get("like"):
            keep = [x for x in vs if x["name"] in (v["name"], v["like"])]
            if len(keep) < len(vs):
                yield {**plan, "variants": keep}
    for v in vs:
        if len(vs) > 1:
            yield {**plan, "variants": [v]}
    if plan.get("concurrent"):
        yield from minimize.shrink_schedule(plan)
