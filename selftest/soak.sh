#!/bin/bash
# Soak: run every claimed check's quick tier over a range of VERIF_SEED values on the unchanged
# tree; any non-zero exit is printed (a false alarm or harness failure to investigate).
# usage: soak.sh <first seed> <last seed> [tier]
cd "$(dirname "$0")/.."
first=${1:-1}; last=${2:-20}; tier=${3:-quick}
bad=0
for seed in $(seq $first $last); do
  for p in $(/venv/bin/python -c "import json;print(' '.join(c['property_id'] for c in json.load(open('MANIFEST.json'))['checks']))"); do
    out=$(VERIF_SEED=$seed /venv/bin/python bin/check $p --tier $tier --no-evidence 2>&1)
    rc=$?
    line=$(echo "$out" | tail -1)
    if [ $rc -ne 0 ]; then bad=$((bad+1)); echo "SOAK-PROBLEM seed=$seed $p exit=$rc"; echo "$out" | tail -8; fi
    echo "seed=$seed $line"
  done
done
echo "SOAK DONE problems=$bad"
