#!/bin/bash
# Runs every claimed check's thorough tier once on the unchanged tree (no evidence rewrite).
cd "$(dirname "$0")/.."
seed=${1:-0}
for p in $(/venv/bin/python -c "import json;print(' '.join(c['property_id'] for c in json.load(open('MANIFEST.json'))['checks']))"); do
  VERIF_SEED=$seed /venv/bin/python bin/check $p --tier thorough --no-evidence 2>&1 | tail -2
done
echo THOROUGH DONE
