#!/opt/veriftools/pyvenv/bin/python
"""Validate MANIFEST.json and every evidence file against the given schemas (python3-vt)."""
import json
import sys
import glob
import jsonschema

ok = True
m = json.load(open("/verif/MANIFEST.json"))
jsonschema.validate(m, json.load(open("/root/.vp/MANIFEST.schema.json")))
print("MANIFEST ok:", [c["property_id"] for c in m["checks"]])
props = [json.loads(l)["id"] for l in open("/verif/properties.jsonl")]
claimed = {c["property_id"] for c in m["checks"]}
na = {n["property_id"] for n in m.get("not_applicable", [])}
missing = [p for p in props if p not in claimed and p not in na]
if missing:
    print("NOT COVERED BY EITHER LIST:", missing)
    ok = False
if claimed & na:
    print("BOTH claimed and not_applicable:", claimed & na)
    ok = False
es = json.load(open("/root/.vp/EVIDENCE.schema.json"))
for c in m["checks"]:
    p = c["evidence_file"]
    try:
        e = json.load(open(p if p.startswith("/") else "/verif/" + p))
        jsonschema.validate(e, es)
        assert e["level"] == c["level_claimed"]["category"], "level mismatch"
        print("evidence ok:", p, e["tier"], e["coverage"]["evaluations"], e["coverage"]["distinct_nontrivial"])
    except Exception as ex:  # noqa: BLE001
        print("EVIDENCE PROBLEM:", p, repr(ex)[:300])
        ok = False
sys.exit(0 if ok else 1)
