#!/bin/bash
# Specificity on a chosen subset of the benign catalogue (one --only pattern per argument).
cd "$(dirname "$0")/.."
for pat in "$@"; do
  /venv/bin/python selftest/run_mutants.py --benign --only "$pat" 2>&1 | grep --line-buffered -E "^(SILENT|FALSE-ALARM|ERROR|    )" | cut -c1-400
done
echo BENIGN-SUBSET DONE
