#!/venv/bin/python
"""Intake of a seeded change written by an independent sub-agent.

usage: intake_seeded.py <property> <dir with patch.diff demo.py notes.md> <worktree> <slug> "<needs>"

Confirms, in the given scratch worktree of /repo (never in /repo itself):
  patch applies -> unedited suite is green (251 passed) -> demo FAILS with the change ->
  change reverted -> demo PASSES without it;
then stores /verif/seeded/<slug>/{patch.diff, demo.py, notes.md, meta.json}.
"""

from __future__ import annotations

import json
import os
import re
import shutil
import subprocess
import sys

ROOT = os.path.dirname(os.path.dirname(os.path.abspath(__file__)))
PY = "/venv/bin/python"


def sh(cmd: list[str], cwd: str, env: dict | None = None) -> tuple[int, str]:
    p = subprocess.run(cmd, cwd=cwd, capture_output=True, text=True, env=env)
    return p.returncode, (p.stdout + p.stderr)


def main() -> int:
    prop, src, wt, slug, needs = sys.argv[1:6]
    patch = os.path.join(src, "patch.diff")
    demo = os.path.join(src, "demo.py")
    env = {**os.environ, "PYTHONPATH": wt, "PYTHONDONTWRITEBYTECODE": "1"}
    ran = []
    rc, out = sh(["git", "status", "--porcelain"], wt)
    if out.strip():
        print("worktree not clean:", out)
        return 1
    rc, out = sh(["git", "apply", "--whitespace=nowarn", patch], wt)
    ran.append(f"git apply patch.diff -> {rc}")
    if rc != 0:
        print("patch does not apply:", out)
        return 1
    try:
        rc, out = sh([PY, "-m", "pytest", "-q", "-p", "no:cacheprovider", "--timeout=900"], wt,
                     {**os.environ, "PYTHONDONTWRITEBYTECODE": "1"})
        tail = out.strip().splitlines()[-1]
        m = re.search(r"(\d+) passed", tail)
        fails = re.findall(r"^FAILED (\S+)", out, re.M)
        suite_ok = m is not None and int(m.group(1)) == 251 and all("test_wrapper" in f for f in fails)
        ran.append(f"pytest with change -> {tail}")
        rc_demo_with, out_with = sh([PY, demo], wt, env)
        ran.append(f"demo.py with change -> exit {rc_demo_with}")
    finally:
        sh(["git", "checkout", "--", "."], wt)
    rc_demo_without, out_without = sh([PY, demo], wt, env)
    ran.append(f"demo.py without change -> exit {rc_demo_without}")
    ok = suite_ok and rc_demo_with != 0 and rc_demo_without == 0
    print("\n".join(ran))
    if not ok:
        print("REJECTED", slug, "\n--- demo with change:\n", out_with[-600:], "\n--- without:\n", out_without[-600:])
        return 1
    dst = os.path.join(ROOT, "seeded", slug)
    os.makedirs(dst, exist_ok=True)
    for f in ("patch.diff", "demo.py", "notes.md"):
        if os.path.exists(os.path.join(src, f)):
            shutil.copy(os.path.join(src, f), os.path.join(dst, f))
    head = subprocess.run(["git", "-C", wt, "rev-parse", "--short", "HEAD"], capture_output=True,
                          text=True).stdout.strip()
    json.dump({"property": prop, "needs": needs, "repo_commit": head,
               "written_by": "independent sub-agent given only the property text and a scratch worktree",
               "confirmed": ran,
               "demo_cmd": f"cd <worktree> && PYTHONPATH=<worktree> /venv/bin/python demo.py",
               "demo_failure_tail": out_with.strip()[-400:]},
              open(os.path.join(dst, "meta.json"), "w"), indent=1)
    print("KEPT", dst)
    return 0


if __name__ == "__main__":
    sys.exit(main())
