#!/venv/bin/python
"""Sensitivity self-test: apply each catalogue mutant (and each kept seeded change under
/verif/seeded) to a scratch copy of the working tree, confirm the unedited test suite stays
green, run the expected check's quick tier against the copy and require a VIOLATION.

usage: run_mutants.py [--only substr] [--skip-suite] [--also] [--seeded] [--tier quick]
Scratch copies live under /dev/shm and are removed as soon as each mutant is done.
"""

from __future__ import annotations

import argparse
import json
import os
import re
import shutil
import subprocess
import sys
import time

ROOT = os.path.dirname(os.path.dirname(os.path.abspath(__file__)))
sys.path.insert(0, ROOT)
REPO = os.environ.get("VERIF_REPO", "/repo")
PY = "/venv/bin/python"


def make_copy(dst: str) -> None:
    shutil.rmtree(dst, ignore_errors=True)
    os.makedirs(dst)
    for name in ("chartparse", "tests", "setup.py", "setup.cfg", "requirements.txt", "README.md",
                 "HISTORY.md"):
        src = os.path.join(REPO, name)
        if os.path.isdir(src):
            shutil.copytree(src, os.path.join(dst, name),
                            ignore=shutil.ignore_patterns("__pycache__", "*.pyc"))
        elif os.path.exists(src):
            shutil.copy(src, os.path.join(dst, name))


def apply_edits(dst: str, edits: list) -> None:
    for rel, old, new in edits:
        p = os.path.join(dst, rel)
        s = open(p, encoding="utf-8").read()
        if old is None:  # the file is empty on the unchanged tree: the edit is its new content
            if s.strip():
                raise RuntimeError(f"{rel}: expected an empty file")
            open(p, "w", encoding="utf-8").write(new)
            continue
        if s.count(old) != 1:
            raise RuntimeError(f"{rel}: expected exactly one occurrence of the text to replace, "
                               f"found {s.count(old)}")
        open(p, "w", encoding="utf-8").write(s.replace(old, new))


def apply_patch(dst: str, patch: str) -> None:
    subprocess.run(["git", "init", "-q", "."], cwd=dst, check=True)
    subprocess.run(["git", "apply", "--whitespace=nowarn", patch], cwd=dst, check=True)
    shutil.rmtree(os.path.join(dst, ".git"), ignore_errors=True)


def run_suite(dst: str) -> tuple[bool, str]:
    p = subprocess.run([PY, "-m", "pytest", "-q", "-p", "no:cacheprovider", "--timeout=900",
                        "-x", "--deselect",
                        "tests/test_instrument.py::TestNoteEvent::TestEndTick::test_wrapper"],
                       cwd=dst, capture_output=True, text=True,
                       env={**os.environ, "PYTHONDONTWRITEBYTECODE": "1"})
    tail = p.stdout.strip().splitlines()[-1] if p.stdout.strip() else p.stderr[-300:]
    m = re.search(r"(\d+) passed", tail)
    ok = p.returncode == 0 and m is not None and int(m.group(1)) >= 251
    return ok, tail


def run_check(prop: str, dst: str, tier: str, seed: int) -> tuple[int, str, float]:
    t0 = time.monotonic()
    p = subprocess.run([PY, os.path.join(ROOT, "bin", "check"), prop, "--tier", tier,
                        "--no-evidence"], cwd=ROOT, capture_output=True, text=True,
                       env={**os.environ, "VERIF_REPO": dst, "VERIF_SEED": str(seed),
                            "VERIF_MINIMISE_S": os.environ.get("VERIF_MINIMISE_S", "15")})
    return p.returncode, p.stdout + p.stderr[-2000:], time.monotonic() - t0


def main() -> int:
    ap = argparse.ArgumentParser()
    ap.add_argument("--only", default="")
    ap.add_argument("--skip-suite", action="store_true")
    ap.add_argument("--also", action="store_true", help="also run the checks listed under 'also'")
    ap.add_argument("--all-checks", action="store_true", help="run every claimed check on every mutant")
    ap.add_argument("--seeded", action="store_true", help="include /verif/seeded/*/patch.diff")
    ap.add_argument("--benign", action="store_true",
                    help="run the SPECIFICITY catalogue instead (selftest/benign.py): property-"
                         "preserving refactorings on which every claimed check must exit 0")
    ap.add_argument("--tier", default="quick")
    ap.add_argument("--seed", type=int, default=0)
    ap.add_argument("--out", default=os.path.join(ROOT, "selftest", "mutants_report.json"))
    a = ap.parse_args()

    from selftest.mutants import M

    items = [dict(m, kind="catalogue") for m in M]
    if a.benign:
        from selftest.benign import B

        items = [dict(m, kind="catalogue") for m in B]
        a.all_checks = True
        if a.out.endswith("mutants_report.json"):
            a.out = os.path.join(ROOT, "selftest", "benign_report.json")
    if a.seeded:
        sd = os.path.join(ROOT, "seeded")
        for name in sorted(os.listdir(sd)):
            meta_p = os.path.join(sd, name, "meta.json")
            if os.path.exists(meta_p):
                meta = json.load(open(meta_p))
                items.append({"name": "seeded/" + name, "expect": meta["property"], "kind": "seeded",
                              "patch": os.path.join(sd, name, "patch.diff"),
                              "needs": meta.get("needs", ""), "also": meta.get("also", [])})
    claimed = [c["property_id"] for c in json.load(open(os.path.join(ROOT, "MANIFEST.json")))["checks"]]
    report = []
    bad = 0
    for m in items:
        if a.only and a.only not in m["name"]:
            continue
        dst = f"/dev/shm/verif-mut-{os.getpid()}"
        rec = {"name": m["name"], "expect": m["expect"], "needs": m["needs"]}
        try:
            make_copy(dst)
            if m["kind"] == "catalogue":
                apply_edits(dst, m["edits"])
            else:
                apply_patch(dst, m["patch"])
            if not a.skip_suite:
                ok, tail = run_suite(dst)
                rec["suite_green"] = ok
                rec["suite"] = tail
            props = [m["expect"]]
            if a.also:
                props += [p for p in m["also"] if p in claimed]
            if a.all_checks:
                props = [m["expect"]] + [p for p in claimed if p != m["expect"]]
            if a.benign:
                props = list(claimed)
            rec["checks"] = {}
            for prop in props:
                if prop not in claimed:
                    rec["checks"][prop] = {"exit": None, "note": "not claimed"}
                    continue
                rc, out, dt = run_check(prop, dst, a.tier, a.seed)
                vl = [ln for ln in out.splitlines() if ln.startswith("VIOLATION")]
                cand = [ln for ln in out.splitlines() if ln.startswith("violation candidate")]
                rec["checks"][prop] = {"exit": rc, "seconds": round(dt, 1),
                                       "violation_line": vl[0] if vl else None,
                                       "candidate": cand[0][:300] if cand else None}
                if rc not in (0, 1):
                    rec["checks"][prop]["tail"] = out[-1500:]
            if a.benign:
                alarms = {p: r["exit"] for p, r in rec["checks"].items() if r["exit"] != 0}
                rec["false_alarms"] = alarms
                ok = not alarms and (a.skip_suite or rec.get("suite_green"))
                if not ok:
                    bad += 1
                print(f"{'SILENT' if not alarms else 'FALSE-ALARM':12s} {m['name']:55s} "
                      f"alarms={alarms} {rec.get('suite', '')}", flush=True)
                for p, r in rec["checks"].items():
                    if r["exit"] != 0:
                        print(f"    {p}: exit {r['exit']} {r.get('candidate') or ''} "
                              f"{(r.get('tail') or '')[-600:]}", flush=True)
                report.append(rec)
                continue
            detected = rec["checks"].get(m["expect"], {}).get("exit") == 1
            rec["detected"] = detected
            status = "DETECTED" if detected else "MISSED"
            if not a.skip_suite and not rec.get("suite_green"):
                status += " (suite NOT green: not a valid mutant)"
            if not detected:
                bad += 1
            others = {p: r["exit"] for p, r in rec["checks"].items() if p != m["expect"]}
            print(f"{status:10s} {m['name']:50s} expect={m['expect']} "
                  f"t={rec['checks'].get(m['expect'], {}).get('seconds')}s others={others} "
                  f"{rec.get('suite', '')}", flush=True)
        except Exception as e:  # noqa: BLE001
            rec["error"] = repr(e)
            bad += 1
            print(f"ERROR      {m['name']}: {e!r}", flush=True)
        finally:
            shutil.rmtree(dst, ignore_errors=True)
        report.append(rec)
    if not a.only:
        json.dump(report, open(a.out, "w"), indent=1)
    for f in os.listdir(os.path.join(ROOT, "replays")):
        if f.endswith(".json"):
            os.unlink(os.path.join(ROOT, "replays", f))
    return 1 if bad else 0


if __name__ == "__main__":
    sys.exit(main())
