#!/bin/bash
# Full validation of the machinery on the unchanged tree (run from a committed snapshot with
# `vp run`): specificity (benign refactorings), determinism, sensitivity (own + seeded changes),
# then every thorough tier once.  Each part prints its own summary line.
cd "$(dirname "$0")/.."
seed=${1:-7}
echo "== benign (specificity)"; /venv/bin/python selftest/run_mutants.py --benign 2>&1 | grep --line-buffered -E "^(SILENT|FALSE-ALARM|ERROR|    )" 
echo "== determinism"; /venv/bin/python selftest/determinism.py --runs 340 2>&1 | grep -vE "WARNING" | tail -60
echo "== thorough tiers (seed $seed)"; bash selftest/thorough_all.sh $seed
echo "== sensitivity"; /venv/bin/python selftest/run_mutants.py --seeded --skip-suite 2>&1 | grep --line-buffered -E "^(DETECTED|MISSED|ERROR)"
echo VALIDATE-ALL DONE
