#!/venv/bin/python
"""Determinism self-test: the same seeds must give the same per-run event-log digests whatever
the worker count, the worker a run lands on, and the harness' own PYTHONHASHSEED (each
configuration is a fresh interpreter).  usage: determinism.py [--runs N] [--props C17,C19,...]
"""

from __future__ import annotations

import argparse
import json
import os
import subprocess
import sys
import tempfile

ROOT = os.path.dirname(os.path.dirname(os.path.abspath(__file__)))
PY = "/venv/bin/python"

CONFIGS = [
    ("w16-hash0", {"VERIF_WORKERS": "16"}),
    ("w16-hash0-again", {"VERIF_WORKERS": "16"}),
    ("w4-hash0", {"VERIF_WORKERS": "4"}),
    ("w1-hash0", {"VERIF_WORKERS": "1"}),
    ("w16-hash12345", {"VERIF_WORKERS": "16", "VERIF_KEEP_HASHSEED": "1", "PYTHONHASHSEED": "12345"}),
    ("w7-hash987654321", {"VERIF_WORKERS": "7", "VERIF_KEEP_HASHSEED": "1", "PYTHONHASHSEED": "987654321"}),
]


def main() -> int:
    ap = argparse.ArgumentParser()
    ap.add_argument("--runs", type=int, default=320)
    ap.add_argument("--props", default="")
    ap.add_argument("--seed", type=int, default=0)
    a = ap.parse_args()
    claimed = [c["property_id"] for c in json.load(open(os.path.join(ROOT, "MANIFEST.json")))["checks"]]
    props = [p for p in (a.props.split(",") if a.props else claimed) if p]
    bad = 0
    report = {}
    for prop in props:
        base = None
        rows = {}
        for name, envx in CONFIGS:
            runs = a.runs if "w1-" not in name else max(40, a.runs // 4)
            with tempfile.NamedTemporaryFile(suffix=".json", dir="/dev/shm", delete=False) as tf:
                out = tf.name
            env = {k: v for k, v in os.environ.items() if k not in ("PYTHONHASHSEED", "VERIF_KEEP_HASHSEED")}
            env.update(envx)
            env["VERIF_SEED"] = str(a.seed)
            p = subprocess.run([PY, os.path.join(ROOT, "bin", "check"), prop, "--runs", str(runs),
                                "--no-evidence", "--digests-out", out, "--budget", "3000"],
                               cwd=ROOT, env=env, capture_output=True, text=True)
            try:
                d = json.load(open(out))
            except Exception:  # noqa: BLE001
                d = {}
            os.unlink(out)
            rows[name] = (p.returncode, d)
            if p.returncode != 0:
                print(f"{prop} {name}: exit {p.returncode}\n{p.stdout[-800:]}")
                bad += 1
            if base is None:
                base = d
            common = [k for k in d if k in base]
            diff = [k for k in common if d[k] != base[k]]
            empty = [k for k in d if not d[k]]
            print(f"{prop:4s} {name:22s} runs={len(d):5d} compared={len(common):5d} "
                  f"differing={len(diff)} empty_digests={len(empty)}", flush=True)
            if diff or empty or not d:
                bad += 1
                print("   first differing run indices:", diff[:10], "empty:", empty[:5])
        report[prop] = {n: {"exit": rc, "runs": len(d)} for n, (rc, d) in rows.items()}
    print("DETERMINISM", "OK" if not bad else f"FAILED ({bad} problems)")
    return 1 if bad else 0


if __name__ == "__main__":
    sys.exit(main())
