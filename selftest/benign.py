"""Specificity catalogue: realistic refactorings of chartparse that keep the existing 251 tests
green and keep EVERY claimed property true.  Every claimed check's quick tier must exit 0 on each
of them (no VIOLATION, no harness error): an alarm here is a false alarm of the machinery (an
oracle that encodes an accident of the current code instead of the statement).

Same format as mutants.py (exact string replacements applied to a scratch copy); run with
``run_mutants.py --benign``.
"""

B = []


def ben(name, edits, why):
    B.append({"name": name, "expect": None, "edits": edits, "needs": why, "also": []})


ben("benign_unparsable_warning_reworded_without_line_text", [
    ("chartparse/track.py",
     '''_unparsable_line_msg_tmpl: typ.Final[str] = 'unparsable line: "{}" for types {}\'''',
     '''_unparsable_line_msg_tmpl: typ.Final[str] = "skipped one line that matches none of the kinds{:.0s} {}"'''),
], "the report for an unparsable line no longer quotes the line: still one report per line")

ben("benign_unknown_section_warning_reworded", [
    ("chartparse/chart.py",
     '''"unhandled data section titled '{}'"''',
     '''"ignoring section [{}]: no parser for it"'''),
], "other wording of the unknown-section report (still names the section)")

ben("benign_one_logger_for_the_package", [
    ("chartparse/chart.py", "logger = logging.getLogger(__name__)", 'logger = logging.getLogger("chartparse")'),
    ("chartparse/track.py", "logger = logging.getLogger(__name__)", 'logger = logging.getLogger("chartparse")'),
], "all modules log through one package logger")

ben("benign_no_basicconfig", [
    ("chartparse/chart.py", "logging.basicConfig()\n", ""),
], "the library no longer configures the root logger on import")

ben("benign_open_through_pathlib", [
    ("chartparse/chart.py",
     '''        with open(path, "r", encoding="utf-8-sig") as f:''',
     '''        with Path(path).open(encoding="utf_8_sig") as f:'''),
], "Path.open / other spelling of the codec name")

ben("benign_read_bytes_then_decode", [
    ("chartparse/chart.py",
     '''        with open(path, "r", encoding="utf-8-sig") as f:
            return Chart.from_file(f, want_tracks=want_tracks)''',
     '''        import io

        with open(path, "rb") as f:
            text = f.read().decode("utf-8-sig")
        return Chart.from_file(io.StringIO(text), want_tracks=want_tracks)'''),
], "binary read + explicit decode instead of a text-mode handle")

ben("benign_read_in_a_correct_chunk_loop", [
    ("chartparse/chart.py",
     '''        lines = fp.read().splitlines()''',
     '''        pieces = []
        while True:
            piece = fp.read(4096)
            if not piece:
                break
            pieces.append(piece)
        lines = "".join(pieces).splitlines()'''),
], "sized reads, correctly looped until EOF and joined before splitting")

ben("benign_readlines_strip_line_ends", [
    ("chartparse/chart.py",
     '''        lines = fp.read().splitlines()''',
     '''        lines = [ln.rstrip("\\r\\n") for ln in fp.read().splitlines(keepends=True)]'''),
], "other way of removing line terminators")

ben("benign_sections_materialised_as_lists", [
    ("chartparse/chart.py",
     '''                d[curr_header_tag] = itertools.islice(
                    lines, curr_first_line_index, curr_last_line_index + 1
                )''',
     '''                d[curr_header_tag] = list(
                    lines[curr_first_line_index : curr_last_line_index + 1]
                )'''),
    ("chartparse/chart.py",
     '''        data_sections = cls._partition_lines_by_data_section(lines)''',
     '''        data_sections = cls._partition_lines_by_data_section(list(lines))'''),
], "section bodies as list slices instead of lazy islice objects")

ben("benign_tracks_built_without_defaultdict", [
    ("chartparse/chart.py",
     '''                instrument_tracks[instrument][difficulty] = track''',
     '''                instrument_tracks.setdefault(instrument, {})[difficulty] = track'''),
    ("chartparse/chart.py",
     '''        instrument_tracks = InstrumentTrackMap(collections.defaultdict(dict))''',
     '''        instrument_tracks = InstrumentTrackMap({})'''),
], "plain dict + setdefault")

ben("benign_memo_tables_removed", [
    ("chartparse/instrument.py",
     '''    @functools.lru_cache
    def is_chord(self) -> bool:''',
     '''    def is_chord(self) -> bool:'''),
    ("chartparse/instrument.py",
     '''    @functools.lru_cache
    def is_5_note(self) -> bool:''',
     '''    def is_5_note(self) -> bool:'''),
    ("chartparse/tick.py",
     '''@functools.lru_cache
def note_duration_to_ticks(''',
     '''def note_duration_to_ticks('''),
], "three of the four lru_caches dropped")

ben("benign_lock_around_a_memo", [
    ("chartparse/tick.py",
     '''@functools.lru_cache
def note_duration_to_ticks(resolution: Ticks, note_duration: NoteDuration) -> Ticks:''',
     '''import threading as _threading

_ndt_lock = _threading.Lock()


def note_duration_to_ticks(resolution: Ticks, note_duration: NoteDuration) -> Ticks:
    with _ndt_lock:
        return _note_duration_to_ticks(resolution, note_duration)


@functools.lru_cache
def _note_duration_to_ticks(resolution: Ticks, note_duration: NoteDuration) -> Ticks:'''),
], "a correct lock around a memoised helper (the scheduler must not deadlock on it or alarm)")

ben("benign_bisect_lookup", [
    ("chartparse/sync.py",
     '''        # Do NOT iterate over last BPMEvent, since it has no next event.
        for index in range(start_iteration_index, index_of_last_event):
            if self[index + 1].tick > tick:
                return index

        # If none of the previous BPMEvents are proximal, the last event is proximal by
        # definition.
        return index_of_last_event''',
     '''        import bisect

        lo = bisect.bisect_right(self.events, tick, lo=start_iteration_index, key=lambda e: e.tick)
        return lo - 1'''),
], "binary search from the hint instead of a linear scan (same result for every legal hint)")

ben("benign_error_messages_reworded", [
    ("chartparse/sync.py",
     '''f"there are no BPMEvents at or after index {start_iteration_index} in bpm_events"''',
     '''f"hint {start_iteration_index} is past the last tempo event"'''),
    ("chartparse/chart.py",
     '''                f"chart has data sections {list(data_sections.keys())}; does not contain all "''',
     '''                f"sections found: {sorted(data_sections.keys())}; missing one of the "'''),
], "other wording of two ValueError messages")

ben("benign_tracks_in_enum_order", [
    ("chartparse/chart.py",
     '''            InstrumentTrackMap(dict(instrument_tracks)),''',
     '''            InstrumentTrackMap(
                {
                    i: {d: instrument_tracks[i][d] for d in Difficulty if d in instrument_tracks[i]}
                    for i in Instrument
                    if i in instrument_tracks
                }
            ),'''),
], "the track map is ordered by the enums instead of by file order")

ben("benign_getitem_returns_copy", [
    ("chartparse/chart.py",
     '''        return self.instrument_tracks.get(instrument, {})''',
     '''        return dict(self.instrument_tracks.get(instrument, {}))'''),
], "subscripting hands out a copy of the per-difficulty map")

ben("benign_last_note_end_plain_property", [
    ("chartparse/instrument.py",
     '''    @functools.cached_property
    def last_note_end_timestamp(self) -> Timestamp | None:''',
     '''    @property
    def last_note_end_timestamp(self) -> Timestamp | None:'''),
], "a derived attribute recomputed on every read instead of cached")

ben("benign_want_tracks_as_frozenset", [
    ("chartparse/chart.py",
     '''        instrument_tracks = InstrumentTrackMap(collections.defaultdict(dict))''',
     '''        wanted = None if want_tracks is None else frozenset(want_tracks)
        instrument_tracks = InstrumentTrackMap(collections.defaultdict(dict))'''),
    ("chartparse/chart.py",
     '''                if want_tracks is not None and instrument_difficulty_pair not in want_tracks:''',
     '''                if wanted is not None and instrument_difficulty_pair not in wanted:'''),
], "selection membership through a frozenset built once per call")

ben("benign_hint_parameter_positional_or_keyword", [
    ("chartparse/sync.py",
     '''    def timestamp_at_tick(
        self, tick: Tick, *, start_iteration_index: int = 0
    ) -> tuple[Timestamp, int]:''',
     '''    def timestamp_at_tick(
        self, tick: Tick, start_iteration_index: int = 0
    ) -> tuple[Timestamp, int]:'''),
], "the hint may also be passed positionally")

ben("benign_package_init_reexports_chart", [
    ("chartparse/__init__.py", None, '''from chartparse.chart import Chart  # noqa: F401
'''),
], "the package __init__ re-exports Chart (so every first import loads chart first)")

ben("benign_all_lists_added", [
    ("chartparse/time.py", '''Timestamp = typ.NewType("Timestamp", timedelta)
''', '''Timestamp = typ.NewType("Timestamp", timedelta)
__all__ = ["Timestamp", "add"]
'''),
    ("chartparse/exceptions.py", '''from __future__ import annotations
''', '''from __future__ import annotations

__all__ = ["RegexNotMatchError", "MissingRequiredField", "UnreachableError", "raise_"]
'''),
], "__all__ lists in two modules")

ben("benign_result_cache_keyed_by_full_text", [
    ("chartparse/chart.py",
     '''        lines = fp.read().splitlines()
        data_sections = cls._partition_lines_by_data_section(lines)''',
     '''        text = fp.read()
        cache_key = (text, None if want_tracks is None else tuple(want_tracks))
        try:
            cached = cls._result_cache.get(cache_key)
        except TypeError:
            cache_key = None
            cached = None
        if cached is not None:
            return cached
        chart = cls._from_text(text, want_tracks)
        if cache_key is not None:
            if len(cls._result_cache) >= 64:
                cls._result_cache.clear()
            cls._result_cache[cache_key] = chart
        return chart

    _result_cache: typ.ClassVar[dict] = {}

    @classmethod
    def _from_text(
        cls,
        text: str,
        want_tracks: Sequence[tuple[Instrument, Difficulty]] | None = None,
    ) -> Chart:
        lines = text.splitlines()
        data_sections = cls._partition_lines_by_data_section(lines)'''),
], "a correct result cache keyed by the whole text and the selection: equal inputs give the SAME (immutable) chart object")

ben("benign_sections_parsed_in_sorted_header_order", [
    ("chartparse/chart.py",
     '''        for header_tag, data_section_lines in data_sections.items():
            if header_tag in instrument_track_name_to_instrument_difficulty_pair:''',
     '''        for header_tag, data_section_lines in sorted(data_sections.items(), key=lambda kv: kv[0]):
            if header_tag in instrument_track_name_to_instrument_difficulty_pair:'''),
], "instrument sections are parsed (and stored) in sorted header order instead of file order")

ben("benign_tracks_built_on_a_thread_pool_stored_in_file_order", [
    ("chartparse/chart.py",
     '''        instrument_tracks = InstrumentTrackMap(collections.defaultdict(dict))
        for header_tag, data_section_lines in data_sections.items():''',
     '''        import concurrent.futures

        instrument_tracks = InstrumentTrackMap(collections.defaultdict(dict))
        pending = []
        pool = concurrent.futures.ThreadPoolExecutor(max_workers=3, thread_name_prefix="chartparse-track")
        for header_tag, data_section_lines in data_sections.items():'''),
    ("chartparse/chart.py",
     '''                track = InstrumentTrack.from_chart_lines(
                    instrument,
                    difficulty,
                    data_section_lines,
                    sync_track.bpm_events,
                )
                instrument_tracks[instrument][difficulty] = track
            elif header_tag not in cls._required_header_tags:
                logger.warning(cls._unhandled_data_section_log_msg_tmpl.format(header_tag))
''',
     '''                pending.append((instrument, difficulty, pool.submit(
                    InstrumentTrack.from_chart_lines,
                    instrument,
                    difficulty,
                    list(data_section_lines),
                    sync_track.bpm_events,
                )))
            elif header_tag not in cls._required_header_tags:
                logger.warning(cls._unhandled_data_section_log_msg_tmpl.format(header_tag))
        try:
            for instrument, difficulty, future in pending:
                instrument_tracks[instrument][difficulty] = future.result()
        finally:
            pool.shutdown(wait=True)
'''),
], "instrument tracks are built by a thread pool inside the library and stored in file order: "
   "threads the library makes itself are scheduled by the simulator and must not cause an alarm")

ben("benign_condition_guarded_count_of_running_parses", [
    ("chartparse/chart.py",
     '''        lines = fp.read().splitlines()''',
     '''        with _running_cond:
            _running[0] += 1
        try:
            lines = fp.read().splitlines()
        finally:
            with _running_cond:
                _running[0] -= 1
                _running_cond.notify_all()'''),
    ("chartparse/chart.py",
     '''logger = logging.getLogger(__name__)''',
     '''logger = logging.getLogger(__name__)

import threading as _threading  # noqa: E402

_running_cond = _threading.Condition()
_running = [0]'''),
], "a condition variable guards a count of parses in flight (a lock held across pre-emption points)")
