"""Sensitivity catalogue: realistic changes to chartparse that keep the existing 251 tests green
and break one claimed property.  Each mutant is a list of exact string replacements (robust to
line shifts) applied to a scratch copy of the working tree; see run_mutants.py.

expect  = property whose quick check must report a violation
also    = other checks that may legitimately report it too
"""

M = []


def mut(name, expect, edits, needs, also=()):
    M.append({"name": name, "expect": expect, "edits": edits, "needs": needs, "also": list(also)})


# ---------------------------------------------------------------------------------------- C17
mut("c17_sustain_scratch_module_level", "C17", [
    ("chartparse/instrument.py",
     '''    sustain_list = _SustainList([None] * 5)
    for d in filter(lambda d: d.note_track_index.is_5_note(), datas):''',
     '''    sustain_list = _scratch_sustain_list
    for i in range(5):
        sustain_list[i] = None
    for d in filter(lambda d: d.note_track_index.is_5_note(), datas):'''),
    ("chartparse/instrument.py",
     '''def complex_sustain_from_parsed_datas(datas: Sequence[NoteEvent.ParsedData]) -> ComplexSustain:''',
     '''_scratch_sustain_list = _SustainList([None] * 5)


def complex_sustain_from_parsed_datas(datas: Sequence[NoteEvent.ParsedData]) -> ComplexSustain:'''),
], "a context switch between filling and reading the shared scratch list (two threads parsing)")

mut("c17_module_scratch_one_line_window", "C17", [
    ("chartparse/instrument.py",
     '''        tick = datas[0].tick
        note = Note.from_parsed_datas(datas)''',
     '''        _current.tick = datas[0].tick
        tick = _current.tick
        note = Note.from_parsed_datas(datas)'''),
    ("chartparse/instrument.py",
     '''_SustainList = typ.NewType("_SustainList", list[Ticks | None])''',
     '''class _Current:
    tick: int = 0


_current = _Current()

_SustainList = typ.NewType("_SustainList", list[Ticks | None])'''),
], "two threads parsing notes; a context switch exactly between the store and the load of a module-level temporary (a one-line window), with the other thread passing the same line meanwhile")

mut("c17_class_attribute_as_temporary", "C17", [
    ("chartparse/instrument.py",
     '''        note_data, star_power_data, track_data = cls._parse_data_from_chart_lines(lines)''',
     '''        InstrumentTrack._bpm_events_in_use = bpm_events
        note_data, star_power_data, track_data = cls._parse_data_from_chart_lines(lines)'''),
    ("chartparse/instrument.py",
     '''        note_events = cls._build_note_events_from_data(note_data, star_power_events, bpm_events)''',
     '''        note_events = cls._build_note_events_from_data(
            note_data, star_power_events, InstrumentTrack._bpm_events_in_use
        )'''),
], "two threads parsing different charts: the tempo map of the other chart is used for the notes when a switch falls between the two sites")

mut("c17_resolution_cached_by_object_id", "C17", [
    ("chartparse/instrument.py",
     '''        hopo_state = NoteEvent._compute_hopo_state(
            bpm_events.resolution,''',
     '''        hopo_state = NoteEvent._compute_hopo_state(
            _resolution_by_id.setdefault(id(bpm_events), bpm_events.resolution),'''),
    ("chartparse/instrument.py",
     '''_SustainList = typ.NewType("_SustainList", list[Ticks | None])''',
     '''_resolution_by_id: dict[int, int] = {}

_SustainList = typ.NewType("_SustainList", list[Ticks | None])'''),
], "history: a cache keyed by id(object); after the first chart is freed a later chart's tempo map reuses the id and inherits the other chart's resolution (HOPO threshold)")

mut("c17_metadata_kwargs_module_level", "C17", [
    ("chartparse/metadata.py",
     '''        kwargs: _FieldValuesDict = dict()

        lines = list(lines_iter)''',
     '''        kwargs = _kwargs

        lines = list(lines_iter)'''),
    ("chartparse/metadata.py",
     '''@typ.final
@dataclasses.dataclass(frozen=True, kw_only=True)
class Metadata(DictPropertiesEqMixin, DictReprMixin):''',
     '''_kwargs: _FieldValuesDict = dict()


@typ.final
@dataclasses.dataclass(frozen=True, kw_only=True)
class Metadata(DictPropertiesEqMixin, DictReprMixin):'''),
], "history: optional metadata fields absent from a chart inherit the value of an earlier chart")

mut("c17_hint_cursor_module_global_not_reset", "C17", [
    ("chartparse/instrument.py",
     '''        proximal_bpm_event_index = 0
        star_power_event_index = 0
        events: list[NoteEvent] = []''',
     '''        global _cursor
        proximal_bpm_event_index = _cursor
        star_power_event_index = 0
        events: list[NoteEvent] = []'''),
    ("chartparse/instrument.py",
     '''            events.append(event)
            i += 1

        return events''',
     '''            events.append(event)
            _cursor = proximal_bpm_event_index
            i += 1

        _cursor = 0
        return events'''),
    ("chartparse/instrument.py",
     '''_SustainList = typ.NewType("_SustainList", list[Ticks | None])''',
     '''_cursor: int = 0

_SustainList = typ.NewType("_SustainList", list[Ticks | None])'''),
], "a parse that fails or is aborted mid-track leaves the cursor set; the next parse starts from it", also=("C11",))

mut("c17_broad_except_swallows_faults", "C17", [
    ("chartparse/track.py",
     '''            try:
                data = t.from_chart_line(line)
            except RegexNotMatchError:
                continue''',
     '''            try:
                data = t.from_chart_line(line)
            except Exception:
                continue'''),
], "an allocation failure (MemoryError) injected inside a line recogniser is swallowed: the line is silently reported as unparsable")

mut("c17_headers_through_set", "C17", [
    ("chartparse/chart.py",
     '''        for header_tag, data_section_lines in data_sections.items():
            if header_tag in instrument_track_name_to_instrument_difficulty_pair:''',
     '''        for header_tag in set(data_sections):
            data_section_lines = data_sections[header_tag]
            if header_tag in instrument_track_name_to_instrument_difficulty_pair:'''),
], "hash randomisation: key order / warning order differs between interpreters", also=("C06",))

# ---------------------------------------------------------------------------------------- C19
mut("c19_prefix_autoinsert", "C19", [
    ("chartparse/chart.py",
     '''        return self.instrument_tracks.get(instrument, {})''',
     '''        return self.instrument_tracks.setdefault(instrument, {})'''),
], "look-up of an instrument without a track (sequential), or that look-up while another thread iterates the map")

mut("c19_last_note_end_sorts_in_place", "C19", [
    ("chartparse/instrument.py",
     '''        return max(self.note_events, key=lambda e: e.end_timestamp).end_timestamp''',
     '''        self.note_events.sort(key=lambda e: e.end_timestamp)  # type: ignore[attr-defined]
        return self.note_events[-1].end_timestamp'''),
], "reading last_note_end_timestamp on a track whose longest sustain is not on the last note")

mut("c19_prefix_undecorated_subclass", "C19", [
    ("chartparse/globalevents.py",
     '''@typ.final
@dataclasses.dataclass(kw_only=True, frozen=True)
class LyricEvent(GlobalEvent):''',
     '''@typ.final
class LyricEvent(GlobalEvent):'''),
], "attribute assignment of a non-field name on a lyric event is accepted (pre-repair code)")

mut("c19_bpm_events_last_index_cache", "C19", [
    ("chartparse/sync.py",
     '''        proximal_bpm_event_index = self._index_of_proximal_event(
            tick, start_iteration_index=start_iteration_index
        )
        proximal_bpm_event = self.events[proximal_bpm_event_index]''',
     '''        if start_iteration_index == 0 and tick >= self.__dict__.get("_last_tick", tick + 1):
            start_iteration_index = self.__dict__.get("_last_index", 0)
        proximal_bpm_event_index = self._index_of_proximal_event(
            tick, start_iteration_index=start_iteration_index
        )
        self.__dict__["_last_tick"] = tick
        self.__dict__["_last_index"] = proximal_bpm_event_index
        proximal_bpm_event = self.events[proximal_bpm_event_index]'''),
], "a query remembers its position on the shared object: equality with the twin and, under a context switch between the two stores, later results change", also=("C11", "C17"))

# ---------------------------------------------------------------------------------------- C06
mut("c06_split_on_newline", "C06", [
    ("chartparse/chart.py",
     '''        lines = fp.read().splitlines()''',
     '''        lines = fp.read().split("\\n")
        if lines and lines[-1] == "":
            lines.pop()'''),
], "CRLF line endings reaching from_file untranslated (newline='' readers)", also=("C17",))

mut("c06_sized_read", "C06", [
    ("chartparse/chart.py",
     '''        lines = fp.read().splitlines()''',
     '''        lines = fp.read(1 << 16).splitlines()'''),
], "a reader whose sized read returns short (legal for text streams) or a file above 64 KiB")

mut("c06_enum_value_changed", "C06", [
    ("chartparse/instrument.py", '''    GHL_COOP = "GHLCoop"''', '''    GHL_COOP = "GHLCo-op"'''),
], "one of the 40 headers that no test routes")

mut("c06_line_iteration_rstrip", "C06", [
    ("chartparse/chart.py",
     '''        lines = fp.read().splitlines()''',
     '''        lines = [line.rstrip("\\n") for line in fp]'''),
], "CRLF reaching from_file untranslated: '\\r' stays on every line")

mut("c06_unknown_difficulty_like_section_silent", "C06", [
    ("chartparse/chart.py",
     '''            elif header_tag not in cls._required_header_tags:
                logger.warning(cls._unhandled_data_section_log_msg_tmpl.format(header_tag))''',
     '''            elif header_tag not in cls._required_header_tags and not any(
                header_tag.startswith(d.value) for d in Difficulty
            ):
                logger.warning(cls._unhandled_data_section_log_msg_tmpl.format(header_tag))'''),
], "an unknown section whose name starts like a difficulty (e.g. ExpertGuitar) is ignored without being reported")

# ---------------------------------------------------------------------------------------- C13
mut("c13_empty_selection_means_all", "C13", [
    ("chartparse/chart.py",
     '''                if want_tracks is not None and instrument_difficulty_pair not in want_tracks:''',
     '''                if want_tracks and instrument_difficulty_pair not in want_tracks:'''),
], "an empty selection (list or tuple)")

mut("c13_selection_matches_difficulty_only", "C13", [
    ("chartparse/chart.py",
     '''                if want_tracks is not None and instrument_difficulty_pair not in want_tracks:''',
     '''                if want_tracks is not None and instrument_difficulty_pair[1] not in [
                    d for _, d in want_tracks
                ]:'''),
], "a file holding two instruments at the selected difficulty: the unselected one is returned too")

mut("c13_tuple_selection_ignored", "C13", [
    ("chartparse/chart.py",
     '''                if want_tracks is not None and instrument_difficulty_pair not in want_tracks:''',
     '''                if isinstance(want_tracks, list) and instrument_difficulty_pair not in want_tracks:'''),
], "a selection passed as a tuple (any Sequence is allowed) is ignored: all tracks are returned")

mut("c13_selection_list_consumed", "C13", [
    ("chartparse/chart.py",
     '''                instrument, difficulty = instrument_difficulty_pair
                track = InstrumentTrack.from_chart_lines(''',
     '''                instrument, difficulty = instrument_difficulty_pair
                if isinstance(want_tracks, list) and len(want_tracks) > 1:
                    want_tracks.remove(instrument_difficulty_pair)  # found: stop looking for it
                track = InstrumentTrack.from_chart_lines('''),
], "the caller's selection list is consumed by the parse: a caller that reuses it for the next file gets fewer tracks")

mut("c06_manual_chunked_decode", "C06", [
    ("chartparse/chart.py",
     '''        with open(path, "r", encoding="utf-8-sig") as f:
            return Chart.from_file(f, want_tracks=want_tracks)''',
     '''        import io

        with open(path, "rb") as f:
            pieces = []
            while chunk := f.read(8192):
                pieces.append(chunk.decode("utf-8-sig" if not pieces else "utf-8", errors="ignore"))
        return Chart.from_file(io.StringIO("".join(pieces)), want_tracks=want_tracks)'''),
], "a file above 8 KiB whose 8192-byte boundary falls inside a multi-byte character (silently dropped), or a short read splitting a character")

# ---------------------------------------------------------------------------------------- C14
mut("c14_warning_dropped", "C14", [
    ("chartparse/track.py",
     '''        else:
            logger.warning(_unparsable_line_msg_tmpl.format(line, [t.__qualname__ for t in types]))''',
     '''        else:
            if line.strip():
                logger.warning(
                    _unparsable_line_msg_tmpl.format(line, [t.__qualname__ for t in types])
                )'''),
], "blank unparsable lines are no longer reported (conservation)")

mut("c14_raise_instead_of_skip", "C14", [
    ("chartparse/track.py",
     '''        else:
            logger.warning(_unparsable_line_msg_tmpl.format(line, [t.__qualname__ for t in types]))''',
     '''        else:
            if "=" in line and line.split("=")[0].strip().isdigit() and len(types) == 3 and (
                " = S " in line
            ):
                raise ValueError(f"unsupported special phrase: {line}")
            logger.warning(_unparsable_line_msg_tmpl.format(line, [t.__qualname__ for t in types]))'''),
], "an unsupported S index (e.g. S 64) aborts the parse instead of being skipped", also=("C13", "C18"))

mut("c14_anchor_also_claims_tempo_lines", "C14", [
    ("chartparse/sync.py",
     '''        _regex: typ.Final[str] = r"^\\s*?(\\d+?) = A (\\d+?)$"''',
     '''        _regex: typ.Final[str] = r"^\\s*?(\\d+?) = (?:A|B) (\\d+?)$"'''),
], "anchor recogniser also claims tempo lines: invisible in the shipped kind order, the outcome depends on the order in which kinds are tried")

# ---------------------------------------------------------------------------------------- C15
mut("c15_duplicate_tick_only_detected_after_first", "C15", [
    ("chartparse/sync.py",
     '''            if data.tick <= prev_event.tick:''',
     '''            if data.tick < prev_event.tick or (
                data.tick == prev_event.tick and prev_event._proximal_bpm_event_index == 0
            ):'''),
], "two tempo events on the same tick at position k >= 2 are accepted (the unit test only covers the second event)")

mut("c15_ts_tick0_check_only_for_single_signature", "C15", [
    ("chartparse/sync.py",
     '''        if self.time_signature_events[0].tick != 0:
            raise ValueError(''',
     '''        if self.time_signature_events[0].tick != 0 and len(self.time_signature_events) == 1:
            raise ValueError('''),
], "a chart with several signatures whose first one is not at tick 0 is accepted")

mut("c15_zero_tempo_fast_path_on_exact_tick", "C15", [
    ("chartparse/sync.py",
     '''        ticks_since_proximal_bpm_event = chartparse.tick.between(proximal_bpm_event.tick, tick)
''',
     '''        ticks_since_proximal_bpm_event = chartparse.tick.between(proximal_bpm_event.tick, tick)
        if ticks_since_proximal_bpm_event == 0:
            return proximal_bpm_event.timestamp, proximal_bpm_event_index
'''),
], "an event (or query) exactly on the tick of a zero tempo that is the last tempo event gets a time")

mut("c15_negative_tick_start_check", "C15", [
    ("chartparse/sync.py",
     '''        first_event = self[start_iteration_index]
        if first_event.tick > tick:''',
     '''        first_event = self[start_iteration_index]
        if first_event.tick > tick and start_iteration_index > 0:'''),
], "a query for a negative tick returns a (negative) time", also=("C11",))

# ---------------------------------------------------------------------------------------- C11
mut("c11_sustain_end_at_start_tempo", "C11", [
    ("chartparse/instrument.py",
     '''        end_timestamp, _ = bpm_events.timestamp_at_tick(
            end_tick, start_iteration_index=proximal_bpm_event_index
        )
''',
     '''        end_timestamp, _ = bpm_events.timestamp_at_tick(
            end_tick, start_iteration_index=proximal_bpm_event_index
        )
        if longest_sustain and bpm_events.events and (
            len(bpm_events) > proximal_bpm_event_index + 2
        ):
            # "fast path": no need to walk the tempo map again for the end of the sustain
            end_timestamp = chartparse.time.add(
                timestamp,
                chartparse.tick.seconds_from_ticks_at_bpm(
                    longest_sustain, bpm_events[proximal_bpm_event_index].bpm, bpm_events.resolution
                ),
            )
'''),
], "a sustain that crosses a tempo change while at least two more tempo events follow: end time silently computed at the wrong tempo", also=("C17",))

mut("c11_scan_gives_up_after_four", "C11", [
    ("chartparse/sync.py",
     '''        for index in range(start_iteration_index, index_of_last_event):
            if self[index + 1].tick > tick:
                return index''',
     '''        for index in range(start_iteration_index, index_of_last_event):
            if self[index + 1].tick > tick or index > start_iteration_index + 3:
                return index'''),
], "a tick five or more tempo events past the hint is silently governed by the wrong tempo")

mut("c11_stale_hint_accepted_deep_in_map", "C11", [
    ("chartparse/sync.py",
     '''        first_event = self[start_iteration_index]
        if first_event.tick > tick:
            raise ValueError(
                f"input tick {tick} precedes tick value of first BPMEvent ({first_event.tick})"
            )''',
     '''        first_event = self[start_iteration_index]
        if first_event.tick > tick:
            if start_iteration_index < 4:
                raise ValueError(
                    f"input tick {tick} precedes tick value of first BPMEvent ({first_event.tick})"
                )
            return start_iteration_index'''),
], "body lines out of tick order deep in a long tempo map: an event behind its predecessor silently gets a time from the wrong tempo", also=("C15",))

# ---------------------------------------------------------------------------------------- C18
mut("c18_str_of_tap_note_keyerror", "C18", [
    ("chartparse/instrument.py",
     '''            HOPOState.TAP: "T",
''', ""),
], "rendering a chart that contains a tap note: KeyError from str(event)")

mut("c18_indexerror_on_empty_brace", "C18", [
    ("chartparse/chart.py",
     '''            elif line == "}":
                curr_last_line_index = i - 1''',
     '''            elif line == "}":
                assert curr_first_line_index is not None
                curr_last_line_index = i - 1'''),
], "a closing brace without an opening one: AssertionError escapes")

# ---------------------------------------------------------------------------------------- C20
mut("c20_prefix_cyclic_from_imports", "C20", [
    ("chartparse/track.py",
     '''if typ.TYPE_CHECKING:  # pragma: no cover
    # chartparse.instrument and chartparse.sync import this module; importing names from them
    # here at runtime makes them impossible to import first (circular import).
    from chartparse.instrument import StarPowerEvent, TrackEvent
    from chartparse.sync import AnchorEvent, BPMEvent, BPMEvents, TimeSignatureEvent
''',
     '''from chartparse.instrument import StarPowerEvent, TrackEvent  # noqa: E402
from chartparse.sync import AnchorEvent, BPMEvent, BPMEvents, TimeSignatureEvent  # noqa: E402
'''),
], "import chartparse.instrument (or .sync) as the first chartparse import (pre-repair code)")

mut("c20_order_dependent_side_effect", "C20", [
    ("chartparse/globalevents.py",
     '''logger = logging.getLogger(__name__)
''',
     '''logger = logging.getLogger(__name__)

import sys as _sys

LOADED_BEFORE_INSTRUMENT = "chartparse.instrument" not in _sys.modules
'''),
], "a module-level value that depends on which module was imported first")


mut("c17_thread_local_scratch_not_reentrant", "C17", [
    ("chartparse/track.py",
     '''    m = ParsedDataMap()
    for line in lines:''',
     '''    _tls.depth = getattr(_tls, "depth", 0)
    m = _tls.map = ParsedDataMap()
    for line in lines:'''),
    ("chartparse/track.py",
     '''            m[t].append(data)
            break''',
     '''            _tls.map[t].append(data)
            break'''),
    ("chartparse/track.py",
     '''logger = logging.getLogger(__name__)''',
     '''import threading as _threading

_tls = _threading.local()
logger = logging.getLogger(__name__)'''),
], "a per-THREAD scratch map (thread-safe, so no interleaving shows it): a nested parse on the same thread - the application's log handler parses another chart while a line is being reported - steals the rest of the outer section's lines")


# ------------------------------------------------------------ threads and locks made by the library
mut("c17_two_statistics_locks_taken_in_opposite_orders", "C17", [
    ("chartparse/chart.py",
     '''        metadata = Metadata.from_chart_lines(data_sections[Metadata.header_tag])''',
     '''        with _charts_lock:
            # parse statistics: charts seen / lines seen (two counters, two locks)
            _stats["charts"] = _stats.get("charts", 0) + 1
            metadata = Metadata.from_chart_lines(data_sections[Metadata.header_tag])
            with _lines_lock:
                _stats["lines"] = _stats.get("lines", 0) + len(lines)'''),
    ("chartparse/chart.py",
     '''                track = InstrumentTrack.from_chart_lines(''',
     '''                with _lines_lock:
                    _stats["sections"] = _stats.get("sections", 0) + 1
                    with _charts_lock:
                        _stats["tracks_of_chart"] = _stats.get("charts", 0)
                track = InstrumentTrack.from_chart_lines('''),
    ("chartparse/chart.py",
     '''logger = logging.getLogger(__name__)''',
     '''logger = logging.getLogger(__name__)

import threading as _threading  # noqa: E402

_charts_lock = _threading.Lock()
_lines_lock = _threading.Lock()
_stats: dict = {}'''),
], "two caller threads: one holds the first lock inside the [Song] parse and wants the second, the "
   "other holds the second in the track loop and wants the first - a lock-order deadlock (found "
   "because locks the library makes are cooperative and a run in which no thread can proceed is a verdict)")

mut("c17_thread_pool_results_in_completion_order", "C17", [
    ("chartparse/chart.py",
     '''        instrument_tracks = InstrumentTrackMap(collections.defaultdict(dict))
        for header_tag, data_section_lines in data_sections.items():''',
     '''        import concurrent.futures

        instrument_tracks = InstrumentTrackMap(collections.defaultdict(dict))
        pending = {}
        pool = concurrent.futures.ThreadPoolExecutor(max_workers=3, thread_name_prefix="chartparse-track")
        for header_tag, data_section_lines in data_sections.items():'''),
    ("chartparse/chart.py",
     '''                track = InstrumentTrack.from_chart_lines(
                    instrument,
                    difficulty,
                    data_section_lines,
                    sync_track.bpm_events,
                )
                instrument_tracks[instrument][difficulty] = track
            elif header_tag not in cls._required_header_tags:
                logger.warning(cls._unhandled_data_section_log_msg_tmpl.format(header_tag))
''',
     '''                pending[pool.submit(
                    InstrumentTrack.from_chart_lines,
                    instrument,
                    difficulty,
                    list(data_section_lines),
                    sync_track.bpm_events,
                )] = (instrument, difficulty)
            elif header_tag not in cls._required_header_tags:
                logger.warning(cls._unhandled_data_section_log_msg_tmpl.format(header_tag))
        try:
            for future in concurrent.futures.as_completed(pending):
                instrument, difficulty = pending[future]
                instrument_tracks[instrument][difficulty] = future.result()
        finally:
            pool.shutdown(wait=True)
'''),
], "threads the library starts itself: the order in which pool workers finish (decided by the "
   "simulator's schedule) becomes the order of the chart's tracks")
